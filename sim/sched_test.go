package sim

import (
	"fmt"
	"sort"
	"strings"
	"time"

	"github.com/nats-io/nats.go"
	"github.com/simpleiot/simpleiot/client"
	"github.com/simpleiot/simpleiot/data"
)

// C14 — schedule windows: UTC, midnight wrap, qualified by the start day.
//
// The simulated clock is the quantified input.  A real RuleClient with one
// schedule condition runs under the real Manager; the scheduler moves the
// clock to generated probe instants (every window boundary -1 ns, exact,
// +1 ns, +-1 s, uniform instants, week/month/year ends, leap days), pokes the
// rule so that it evaluates its schedule at exactly that instant, and compares
// the condition's stored "active" point with an independent calendar model.
// Every "active" point the rule writes on its own ticker in between is checked
// against the model at the point's timestamp as well.  time.Local is set to a
// tape-chosen zone: only the UTC reading of an instant may matter.

type schedSpec struct {
	StartMin, EndMin int
	Weekdays         [7]bool
	AnyWeekday       bool
	Dates            []string
}

func (sp schedSpec) allowed(d time.Time) bool {
	if sp.AnyWeekday && !sp.Weekdays[int(d.Weekday())] {
		return false
	}
	if len(sp.Dates) > 0 {
		ds := d.Format("2006-01-02")
		ok := false
		for _, x := range sp.Dates {
			if x == ds {
				ok = true
			}
		}
		if !ok {
			return false
		}
	}
	return true
}

// active is the calendar model: there is an allowed UTC day D such that t lies
// in [start on D, end on D or on D+1 if end is not after start).
func (sp schedSpec) active(t time.Time) bool {
	u := t.UTC()
	day := time.Date(u.Year(), u.Month(), u.Day(), 0, 0, 0, 0, time.UTC)
	for _, off := range []int{0, -1} {
		d := day.AddDate(0, 0, off)
		if !sp.allowed(d) {
			continue
		}
		ws := d.Add(time.Duration(sp.StartMin) * time.Minute)
		we := d.Add(time.Duration(sp.EndMin) * time.Minute)
		if sp.EndMin <= sp.StartMin {
			we = d.AddDate(0, 0, 1).Add(time.Duration(sp.EndMin) * time.Minute)
		}
		if !t.Before(ws) && t.Before(we) {
			return true
		}
	}
	return false
}

func fmtHM(min int, pad bool) string {
	if pad {
		return fmt.Sprintf("%02d:%02d", min/60, min%60)
	}
	return fmt.Sprintf("%d:%02d", min/60, min%60)
}

var interestingDays = []string{"2000-02-28", "2000-02-29", "2000-03-01", "2000-12-31", "2001-01-01", "2001-02-28", "2001-03-01",
	"2004-02-29", "2000-01-02", "2000-01-08", "2000-01-09", "2010-06-30", "2010-07-01", "2024-02-29", "2024-12-31", "2025-01-01", "2000-04-30",
	"2023-03-01", "2021-03-02", "2021-05-01", "2021-12-31", "2022-01-01", "2000-03-01"}

func runC14(s *Sim) {
	s.NoTick = true // the probes sit on exact instants (one nanosecond before midnight): steps must not move the clock
	wl := s.WL
	// time zone of the process: must not matter
	offs := []int{0, 3600, -3600, 5*3600 + 1800, -8 * 3600, 14 * 3600, -12 * 3600, 9 * 3600, -3*3600 - 1800}
	oldLocal := time.Local
	zoneOff := offs[wl.Draw(len(offs))]
	time.Local = time.FixedZone("SIM", zoneOff)
	s.cleanup = append(s.cleanup, func() { time.Local = oldLocal })

	in := s.NewInstance("a", "")
	if s.Failed() {
		return
	}
	tr := in.Track()
	if s.Failed() {
		return
	}
	h := &ruleHarness{s: s, in: in, tr: tr}
	var err error
	h.mnc, err = nats.Connect(in.URL(), nats.Name("mgr"))
	if err != nil {
		s.Fail("C14", "harness", "connect: %v", err)
		return
	}
	s.cleanup = append(s.cleanup, h.mnc.Close)
	setup, _ := nats.Connect(in.URL(), nats.Name("setup"))
	s.cleanup = append(s.cleanup, setup.Close)

	// the schedule
	var sp schedSpec
	sp.StartMin = wl.Draw(1440)
	switch wl.Draw(5) {
	case 0:
		sp.EndMin = sp.StartMin // equal: a full day
	case 1:
		sp.EndMin = (sp.StartMin + 1) % 1440
	case 2:
		sp.EndMin = (sp.StartMin + 1439) % 1440
	default:
		sp.EndMin = wl.Draw(1440)
	}
	if wl.Chance(1, 6) {
		sp.StartMin, sp.EndMin = []int{0, 1439, 0, 720}[wl.Draw(4)], []int{0, 0, 1439, 720}[wl.Draw(4)]
	} else {
		wl.Raw()
		wl.Raw()
	}
	if wl.Chance(1, 2) {
		sp.AnyWeekday = false
		for i := 0; i < 7; i++ {
			if wl.Chance(1, 2) {
				sp.Weekdays[i] = true
				sp.AnyWeekday = true
			}
		}
	} else {
		for i := 0; i < 7; i++ {
			wl.Raw()
		}
	}
	var epochs []time.Time
	nDates := 0
	if wl.Chance(1, 3) {
		nDates = wl.Range(1, 3)
	}
	for i := 0; i < nDates; i++ {
		d := interestingDays[wl.Draw(len(interestingDays))]
		if wl.Chance(1, 6) {
			// well-formed entries that name no calendar day allow no day (they must not roll over into the next one)
			d = []string{"2023-02-29", "2021-02-30", "2021-04-31", "2022-01-00", "2021-13-01", "2000-02-30"}[wl.Draw(6)]
		}
		sp.Dates = append(sp.Dates, d)
	}
	// epochs: days to visit
	nEp := wl.Range(2, 4)
	for i := 0; i < nEp; i++ {
		var d time.Time
		switch {
		case len(sp.Dates) > 0 && wl.Chance(2, 3):
			ds := sp.Dates[wl.Draw(len(sp.Dates))]
			var e error
			if d, e = time.Parse("2006-01-02", ds); e != nil {
				// an entry that names no calendar day: visit the day it would roll over into
				var yy, mm, dd int
				fmt.Sscanf(ds, "%d-%d-%d", &yy, &mm, &dd)
				d = time.Date(yy, time.Month(mm), dd, 0, 0, 0, 0, time.UTC)
			}
			d = d.AddDate(0, 0, wl.Draw(3)-1)
		case wl.Chance(1, 2):
			d, _ = time.Parse("2006-01-02", interestingDays[wl.Draw(len(interestingDays))])
			d = d.AddDate(0, 0, wl.Draw(3)-1)
		default:
			d = time.Date(2000, 1, 2, 0, 0, 0, 0, time.UTC).AddDate(0, 0, wl.Draw(11000))
		}
		if d.Before(time.Date(2000, 1, 2, 0, 0, 0, 0, time.UTC)) {
			d = time.Date(2000, 1, 2, 0, 0, 0, 0, time.UTC)
		}
		epochs = append(epochs, d.UTC())
	}
	// probe instants
	var probes []time.Time
	for _, d := range epochs {
		bounds := []time.Time{
			d.Add(time.Duration(sp.StartMin) * time.Minute),
			d.Add(time.Duration(sp.EndMin) * time.Minute),
			d.AddDate(0, 0, 1).Add(time.Duration(sp.EndMin) * time.Minute),
			d.AddDate(0, 0, -1).Add(time.Duration(sp.StartMin) * time.Minute),
			d, d.AddDate(0, 0, 1),
		}
		for _, b := range bounds {
			if !wl.Chance(2, 3) {
				continue
			}
			for _, dd := range []time.Duration{-time.Second, -1, 0, 1, time.Second} {
				if wl.Chance(3, 4) {
					probes = append(probes, b.Add(dd))
				}
			}
		}
		for i, n := 0, wl.Draw(4); i < n; i++ {
			probes = append(probes, d.Add(time.Duration(wl.Draw(2*86400))*time.Second+time.Duration(wl.Draw(1000))*time.Millisecond))
		}
	}
	sort.Slice(probes, func(i, j int) bool { return probes[i].Before(probes[j]) })
	minT := time.Now().Add(time.Minute)
	var ps []time.Time
	for _, p := range probes {
		if p.After(minT) && (len(ps) == 0 || p.After(ps[len(ps)-1])) {
			ps = append(ps, p)
		}
	}
	probes = ps
	var wd []string
	for i, b := range sp.Weekdays {
		if b {
			wd = append(wd, time.Weekday(i).String()[:3])
		}
	}
	s.SampleText = fmt.Sprintf("zone=%+ds start=%s end=%s weekdays=%v dates=%v probes=%d first=%v", zoneOff, fmtHM(sp.StartMin, true), fmtHM(sp.EndMin, true),
		wd, sp.Dates, len(probes), firstN(probes, 4))

	root := in.RootID
	cond := client.Condition{ID: "c1", Parent: "R", Description: "sched", ConditionType: data.PointValueSchedule,
		Start: fmtHM(sp.StartMin, wl.Chance(1, 2)), End: fmtHM(sp.EndMin, wl.Chance(1, 2)), Dates: sp.Dates}
	if sp.AnyWeekday {
		cond.Weekdays = sp.Weekdays[:]
	}
	s.Call(func() {
		if err := client.SendNode(setup, data.NodeEdge{ID: "g1", Parent: root, Type: data.NodeTypeGroup}, "setup"); err != nil {
			s.Fail("C14", "harness", "create group: %v", err)
		}
		sendType(s, setup, client.Rule{ID: "R", Parent: "g1", Description: "rule"})
		sendType(s, setup, cond)
	})
	if s.Failed() {
		return
	}
	h.model = &ruleModel{rule: client.Rule{ID: "R", Parent: "g1"}, actActive: map[string]float64{}, setCount: map[string]int{}, setLast: map[string]data.Point{}}
	h.subj = "up.g1.*"

	// every "active" point the rule writes to the condition is checked against the calendar at its own timestamp
	tr.OnWrite = func(w *WriteRec) {
		if w.NodeID != "c1" || w.Edge || w.From != "mgr" {
			return
		}
		for _, p := range w.Pts {
			if p.Type != data.PointTypeActive {
				continue
			}
			want := sp.active(p.Time)
			if (p.Value != 0) != want {
				s.Fail("C14", "tick", "the rule marked its schedule condition active=%v at %s (%s), the calendar says %v",
					p.Value != 0, p.Time.UTC().Format(time.RFC3339Nano), p.Time.UTC().Weekday(), want)
			}
			s.Probe("active-writes-checked")
		}
	}
	s.AfterStep = append(s.AfterStep, tr.Process)

	running := false
	pokeN := 0
	for i, t := range probes {
		if s.Failed() {
			return
		}
		if running && time.Until(t) > 3*time.Minute {
			if !h.stopManager() {
				return
			}
			s.Fault("manager-restart")
			running = false
		}
		if !running {
			// nothing else owns a timer now: jump
			if d := time.Until(t) - 20*time.Second; d > 0 {
				time.Sleep(d)
				s.Fault("clock-jump")
			}
			h.startManager()
			running = true
			s.AdvanceIdle(time.Second)
		}
		// walk to the instant, serving the rule's ticker on the way
		for time.Now().Before(t) && !s.Failed() {
			if s.StepOnce(false) {
				continue
			}
			s.sleepOrWake(time.Until(t))
		}
		if !time.Now().Equal(t) {
			s.Fail("C14", "harness", "clock is at %v, wanted %v", time.Now().UTC(), t)
			return
		}
		// poke: a foreign write to the rule node makes the rule evaluate its schedule now
		pokeN++
		txt := fmt.Sprintf("poke %d", pokeN)
		s.Call(func() {
			_ = client.SendNodePoint(setup, "R", data.Point{Type: data.PointTypeDescription, Text: txt, Origin: "web", Time: time.Now()}, true)
		})
		s.Settle()
		if !time.Now().Equal(t) {
			s.Fail("C14", "harness", "clock moved during the probe: %v -> %v", t, time.Now().UTC())
			return
		}
		tr.Process()
		if s.Failed() {
			return
		}
		n, err := in.GetNodes("R", "c1", "", false)
		if err != nil || len(n) != 1 {
			s.Fail("C14", "harness", "cannot read condition: %v", err)
			return
		}
		p, _ := pointOf(n[0].Points, data.PointTypeActive)
		want := sp.active(t)
		if (p.Value != 0) != want {
			s.Fail("C14", "window", "probe %d at %s (%s, zone offset %+ds): schedule start=%s end=%s weekdays=%v dates=%v is stored active=%v, the calendar says %v",
				i, t.UTC().Format(time.RFC3339Nano), t.UTC().Weekday(), zoneOff, cond.Start, cond.End, wd, sp.Dates, p.Value != 0, want)
			return
		}
		if want {
			s.Probe("probe-active")
		} else {
			s.Probe("probe-inactive")
		}
		s.MixState(uint64(t.UnixNano()) ^ uint64(sp.StartMin)<<40 ^ uint64(sp.EndMin)<<20)
	}
	if running {
		h.stopManager()
	}
	s.Stats.NonTrivial = len(probes) > 0
	tr.CheckState(true)
}

func firstN(ts []time.Time, n int) string {
	var o []string
	for i, t := range ts {
		if i >= n {
			break
		}
		o = append(o, t.UTC().Format("2006-01-02T15:04:05.999999999"))
	}
	return strings.Join(o, ",")
}

func init() { register(&Engine{Prop: "C14", Run: runC14}) }
