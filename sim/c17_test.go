package sim

import (
	"bytes"
	"fmt"
	"math"
	"strings"
	"time"

	"github.com/simpleiot/simpleiot/client"
	"github.com/simpleiot/simpleiot/data"
)

// C17 — serial packets round-trip and corruption is always detected.
//
// linksim at the packet layer: the fault space is the transit-error space the
// property names and it is enumerated, not sampled, wherever that is feasible:
// every 1-bit error, every 2-bit pair (all pairs for packets up to 64 bytes,
// a tape-chosen sample above), every burst position and length 2..16 with the
// all-ones interior, the empty interior and tape-chosen interiors.  Nothing
// here needs a scheduler; the check says so in its evidence.

func flip(b []byte, bit int) { b[bit/8] ^= 0x80 >> uint(bit%8) }

func runC17(s *Sim) {
	wl := s.WL
	seq := byte(wl.Draw(256))
	var subject string
	ids := []string{"ID-1", "inst1", "a1b2c3d4", "9f3e", "node", "abc"}
	documented := true
	switch wl.Draw(8) {
	case 6: // any other subject of up to 16 bytes is an ordinary packet with a checksum, also one that begins like "log"
		subject = []string{"logger", "log.abc", "logs", "login/node/1", "lo", "ack2", "phr/x", "p", "0123456789abcdef"}[wl.Draw(9)]
		documented = false
	case 7:
		documented = false
		subject = genStr(wl) + genStr(wl)
		if len(subject) > 16 {
			subject = subject[:16]
		}
		for subject == "log" || strings.ContainsRune(subject, 0) {
			subject = "x" + strings.ReplaceAll(subject, "\x00", "")
			if len(subject) > 16 {
				subject = subject[:16]
			}
		}
	case 0:
		subject = ""
	case 1:
		subject = "p." + ids[wl.Draw(len(ids))]
	case 2:
		subject = "p." + ids[wl.Draw(len(ids))] + "." + ids[wl.Draw(len(ids))]
		if len(subject) > 16 {
			subject = subject[:16]
		}
	case 3:
		subject = "phr"
	case 4:
		subject = "ack"
	case 5:
		subject = "log"
	}
	nPts := wl.Draw(5)
	if subject == "ack" {
		nPts = 0
	}
	var pts data.Points
	for i := 0; i < nPts; i++ {
		p := data.Point{Type: []string{"value", "temp", "description", "t"}[wl.Draw(4)], Key: genKey(wl)}
		p.Value = float64(float32(genFloat(wl, true)))
		if math.IsInf(p.Value, 0) && wl.Chance(1, 2) {
			p.Value = 1.5
		}
		p.Time = time.Unix(0, genTimeNs(wl))
		if wl.Chance(1, 2) {
			p.Text = genStr(wl)
		} else {
			wl.Raw()
			wl.Raw()
			wl.Raw()
			wl.Raw()
		}
		p.Tombstone = wl.Draw(3)
		p.Origin = origins[wl.Draw(len(origins))]
		pts = append(pts, p)
	}
	enc, err := client.SerialEncode(seq, subject, pts)
	if err != nil {
		s.Fail("C17", "encode", "SerialEncode(%d,%q,%d points): %v", seq, subject, len(pts), err)
		return
	}
	s.SampleText = fmt.Sprintf("seq=%d subject=%q points=%d packet=%d bytes", seq, subject, len(pts), len(enc))

	// --- a built packet stays what it is while further packets are built (send queues, retries, batches) ---
	held := append([]byte(nil), enc...)
	for _, other := range []struct {
		seq  byte
		subj string
		pts  data.Points
	}{
		{seq + 200, subject, pts}, // same size, other content
		{seq + 1, "p.zz", append(append(data.Points(nil), pts...), data.Point{Type: "value", Value: 7, Text: "filler"})}, // longer
		{seq + 2, "", nil}, // shorter
	} {
		if _, err := client.SerialEncode(other.seq, other.subj, other.pts); err != nil {
			continue
		}
		if !bytes.Equal(enc, held) {
			s.Fail("C17", "roundtrip", "the bytes of an already built packet (seq=%d subject=%q, %d bytes) changed when the next packet (seq=%d subject=%q) was built: a packet held for sending or retry no longer decodes to what it was built from",
				seq, subject, len(held), other.seq, other.subj)
			return
		}
	}

	// --- undamaged: exact round trip ---
	gs, gsub, payload, err := client.SerialDecode(enc)
	if err != nil || gs != seq || gsub != subject {
		s.Fail("C17", "roundtrip", "undamaged packet decodes to seq=%d subject=%q err=%v, sent seq=%d subject=%q", gs, gsub, err, seq, subject)
		return
	}
	if subject == "log" {
		return // log packets carry no checksum by design and no point list
	}
	got, err := data.PbDecodeSerialPoints(payload)
	if err != nil || len(got) != len(pts) {
		s.Fail("C17", "roundtrip", "payload decodes to %d points (err %v), sent %d", len(got), err, len(pts))
		return
	}
	for i := range pts {
		a, b := pts[i], got[i]
		if a.Type != b.Type || a.Key != b.Key || a.Text != b.Text || a.Tombstone != b.Tombstone || a.Origin != b.Origin ||
			float32(a.Value) != float32(b.Value) || a.Time.UnixNano() != b.Time.UnixNano() {
			s.Fail("C17", "roundtrip", "point %d: sent %s, received %s", i, fmtPoint(a), fmtPoint(b))
			return
		}
	}

	if !documented {
		// the corruption clause is stated for the documented subjects: a few bit errors turn "logs" into "log", which
		// carries no checksum by design; other subjects are judged on the round trip only
		s.Probe("other subjects: round trip only")
		s.Stats.NonTrivial = true
		return
	}
	// --- damaged in transit: rejected, or delivered with identical content ---
	nbits := len(enc) * 8
	check := func(d []byte, what string) bool {
		s2, sub2, pay2, err := client.SerialDecode(d)
		if err != nil {
			return true
		}
		if s2 == seq && sub2 == subject && bytes.Equal(pay2, payload) {
			return true
		}
		s.Fail("C17", "undetected", "%s on a %d-byte packet (subject %q) was not detected: delivered seq=%d subject=%q payload %d bytes (sent seq=%d, %d bytes)",
			what, len(enc), subject, s2, sub2, len(pay2), seq, len(payload))
		return false
	}
	d := make([]byte, len(enc))
	n1, n2, nb := 0, 0, 0
	for i := 0; i < nbits; i++ {
		copy(d, enc)
		flip(d, i)
		n1++
		if !check(d, fmt.Sprintf("1-bit error at bit %d", i)) {
			return
		}
	}
	if len(enc) <= 64 {
		for i := 0; i < nbits; i++ {
			for j := i + 1; j < nbits; j++ {
				copy(d, enc)
				flip(d, i)
				flip(d, j)
				n2++
				if !check(d, fmt.Sprintf("2-bit error at bits %d,%d", i, j)) {
					return
				}
			}
		}
		s.Probe("packets with all 2-bit pairs enumerated")
	} else {
		for k := 0; k < 20000; k++ {
			i, j := s.SCH.Draw(nbits), s.SCH.Draw(nbits)
			if i == j {
				continue
			}
			copy(d, enc)
			flip(d, i)
			flip(d, j)
			n2++
			if !check(d, fmt.Sprintf("2-bit error at bits %d,%d", i, j)) {
				return
			}
		}
	}
	for start := 0; start < nbits; start++ {
		for l := 2; l <= 16 && start+l <= nbits; l++ {
			interiors := []uint32{0, 0xffff}
			if l > 3 {
				interiors = append(interiors, uint32(s.SCH.Raw()), uint32(s.SCH.Raw()))
			}
			for _, in := range interiors {
				copy(d, enc)
				flip(d, start)
				flip(d, start+l-1)
				for k := 1; k < l-1; k++ {
					if in>>(uint(k)%16)&1 == 1 {
						flip(d, start+k)
					}
				}
				nb++
				if !check(d, fmt.Sprintf("burst of %d bits at bit %d (interior %#x)", l, start, in)) {
					return
				}
			}
		}
	}
	s.Stats.Probes["error patterns: 1-bit"] += n1
	s.Stats.Probes["error patterns: 2-bit"] += n2
	s.Stats.Probes["error patterns: burst<=16"] += nb
	s.Stats.Faults["bit-errors-injected"] += n1 + n2 + nb
	s.Stats.NonTrivial = true
	s.MixState(uint64(len(enc))<<16 ^ uint64(seq) ^ uint64(len(pts))<<40)
	s.noteSched(fmt.Sprintf("%x", enc))
}

func init() { register(&Engine{Prop: "C17", Run: runC17, NoBubble: true}) }
