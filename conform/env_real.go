//go:build real

package main

import (
	"fmt"
	"net"
	"os"
	"strconv"
	"time"

	"github.com/nats-io/nats-server/v2/server"
)

type realEnv struct {
	opts *server.Options
	s    *server.Server
}

func newEnv(token string) env {
	e := &realEnv{opts: &server.Options{Host: "127.0.0.1", Port: -1, NoLog: true, NoSigs: true, Authorization: token}}
	e.Start()
	// keep the port for restarts
	_, p, _ := net.SplitHostPort(e.s.Addr().String())
	e.opts.Port, _ = strconv.Atoi(p)
	return e
}

func (e *realEnv) URL() string { return fmt.Sprintf("nats://127.0.0.1:%d", e.opts.Port) }

func (e *realEnv) Stop() {
	if e.s != nil {
		e.s.Shutdown()
		e.s.WaitForShutdown()
		e.s = nil
	}
}

func (e *realEnv) Start() {
	s, err := server.NewServer(e.opts)
	if err != nil {
		fmt.Fprintln(os.Stderr, "FATAL server:", err)
		os.Exit(2)
	}
	go s.Start()
	if !s.ReadyForConnections(5 * time.Second) {
		fmt.Fprintln(os.Stderr, "FATAL server not ready")
		os.Exit(2)
	}
	e.s = s
}
