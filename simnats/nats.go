// Package nats is a simulated, in-process stand-in for github.com/nats-io/nats.go
// (v1.31.0 surface as used by simpleiot's client, store and api packages).
//
// It models core NATS with one server per instance: every connection has an
// uplink FIFO of protocol operations (PUB/SUB/UNSUB/CLOSE) that a scheduler
// routes one at a time, and every subscription has an inbox FIFO from which a
// scheduler dispatches one message at a time to the subscription's own
// delivery goroutine.  Nothing moves unless the scheduler (the harness) says
// so; the only concurrency left to the Go runtime is what the code under test
// does between two bus calls.
//
// Guarantees kept (the ones real NATS gives): per publishing connection and
// per subscription FIFO order, no duplication, no loss on a healthy
// connection, at-most-once across a broken one, NoEcho, wildcard matching as
// in the server's sublist (empty tokens match nothing), no-responders status
// for requests, per-subscription sequential callbacks, callbacks of the
// connection handlers in order on one goroutine per connection.
package nats

import (
	"errors"
	"fmt"
	"net"
	"sort"
	"strings"
	"sync"
	"time"
)

// Errors (same identities matter only inside the process).
var (
	ErrTimeout              = errors.New("nats: timeout")
	ErrNoResponders         = errors.New("nats: no responders available for request")
	ErrConnectionClosed     = errors.New("nats: connection closed")
	ErrConnectionDraining   = errors.New("nats: connection draining")
	ErrBadSubscription      = errors.New("nats: invalid subscription")
	ErrBadSubject           = errors.New("nats: invalid subject")
	ErrBadQueueName         = errors.New("nats: invalid queue name")
	ErrSlowConsumer         = errors.New("nats: slow consumer, messages dropped")
	ErrNoServers            = errors.New("nats: no servers available for connection")
	ErrAuthorization        = errors.New("nats: authorization violation")
	ErrReconnectBufExceeded = errors.New("nats: outbound buffer limit exceeded")
	ErrMsgNoReply           = errors.New("nats: message does not have a reply")
	ErrMsgNotBound          = errors.New("nats: message is not bound to subscription/connection")
)

// MsgHandler is a subscription callback.
type MsgHandler func(msg *Msg)

// ConnHandler is a connection event callback.
type ConnHandler func(*Conn)

// ErrHandler is the asynchronous error callback.
type ErrHandler func(*Conn, *Subscription, error)

// ReconnectDelayHandler computes the delay before the next reconnect attempt.
type ReconnectDelayHandler func(attempts int) time.Duration

// CustomDialer mirrors the real interface (never used by the simulation).
type CustomDialer interface {
	Dial(network, address string) (net.Conn, error)
}

// Option configures Options.
type Option func(*Options) error

// Options is the subset of nats.Options that the code under test sets.
type Options struct {
	Url                    string
	Name                   string
	NoEcho                 bool
	Token                  string
	Timeout                time.Duration
	DrainTimeout           time.Duration
	PingInterval           time.Duration
	MaxPingsOut            int
	AllowReconnect         bool
	MaxReconnect           int
	ReconnectWait          time.Duration
	ReconnectBufSize       int
	RetryOnFailedConnect   bool
	CustomDialer           CustomDialer
	CustomReconnectDelayCB ReconnectDelayHandler
	AsyncErrorCB           ErrHandler
	ConnectedCB            ConnHandler
	ReconnectedCB          ConnHandler
	DisconnectedCB         ConnHandler
	ClosedCB               ConnHandler
}

func Name(n string) Option                    { return func(o *Options) error { o.Name = n; return nil } }
func Timeout(t time.Duration) Option          { return func(o *Options) error { o.Timeout = t; return nil } }
func DrainTimeout(t time.Duration) Option     { return func(o *Options) error { o.DrainTimeout = t; return nil } }
func PingInterval(t time.Duration) Option     { return func(o *Options) error { o.PingInterval = t; return nil } }
func MaxPingsOutstanding(n int) Option        { return func(o *Options) error { o.MaxPingsOut = n; return nil } }
func RetryOnFailedConnect(b bool) Option      { return func(o *Options) error { o.RetryOnFailedConnect = b; return nil } }
func ReconnectBufSize(n int) Option           { return func(o *Options) error { o.ReconnectBufSize = n; return nil } }
func ReconnectWait(t time.Duration) Option    { return func(o *Options) error { o.ReconnectWait = t; return nil } }
func MaxReconnects(n int) Option              { return func(o *Options) error { o.MaxReconnect = n; return nil } }
func SetCustomDialer(d CustomDialer) Option   { return func(o *Options) error { o.CustomDialer = d; return nil } }
func Token(t string) Option                   { return func(o *Options) error { o.Token = t; return nil } }
func NoEcho() Option                          { return func(o *Options) error { o.NoEcho = true; return nil } }
func ErrorHandler(cb ErrHandler) Option       { return func(o *Options) error { o.AsyncErrorCB = cb; return nil } }
func ConnectHandler(cb ConnHandler) Option    { return func(o *Options) error { o.ConnectedCB = cb; return nil } }
func ReconnectHandler(cb ConnHandler) Option  { return func(o *Options) error { o.ReconnectedCB = cb; return nil } }
func DisconnectHandler(cb ConnHandler) Option { return func(o *Options) error { o.DisconnectedCB = cb; return nil } }
func ClosedHandler(cb ConnHandler) Option     { return func(o *Options) error { o.ClosedCB = cb; return nil } }
func CustomReconnectDelay(cb ReconnectDelayHandler) Option {
	return func(o *Options) error { o.CustomReconnectDelayCB = cb; return nil }
}

// Msg is a bus message.
type Msg struct {
	Subject string
	Reply   string
	Data    []byte
	Sub     *Subscription

	// simulation bookkeeping
	Seq     uint64 // global route sequence number
	From    *Conn  // publishing connection
	arrival uint64 // arrival number on the receiving connection
	status  int    // 503 = no responders
}

// Respond publishes a reply to the message.
func (m *Msg) Respond(data []byte) error {
	if m == nil || m.Sub == nil {
		return ErrMsgNotBound
	}
	if m.Reply == "" {
		return ErrMsgNoReply
	}
	return m.Sub.conn.Publish(m.Reply, data)
}

type opKind int

const (
	opPub opKind = iota
	opSub
	opUnsub
	opClose
)

func (k opKind) String() string { return [...]string{"PUB", "SUB", "UNSUB", "CLOSE"}[k] }

// IsPub, IsSub, IsUnsub classify an operation for observers.
func (o *Op) IsPub() bool   { return o.Kind == opPub }
func (o *Op) IsSub() bool   { return o.Kind == opSub }
func (o *Op) IsUnsub() bool { return o.Kind == opUnsub }

// Op is one protocol operation on a connection's uplink.
type Op struct {
	Kind    opKind
	Subject string
	Reply   string
	Data    []byte
	Sub     *Subscription
}

// Conn states
const (
	stConnected = iota
	stReconnecting
	stClosed
)

// Server is one simulated NATS server.
type Server struct {
	Name    string
	Token   string
	Up      bool
	aliases []string
}

// Conn is a simulated connection.
type Conn struct {
	w    *World
	ID   int
	Name string
	Host string // host part of the URL it was opened with (an alias of the server)
	Srv  *Server
	Opts Options

	state    int
	initc    bool // never connected yet (RetryOnFailedConnect)
	uplink   []*Op
	pending  []*Op // reconnect buffer
	pendSize int
	subs     []*Subscription
	nextSub  int
	nextReq  int
	reqs     map[string]*Subscription
	arrival  uint64

	cbq      []func()
	cbWake   chan struct{}
	cbExit   bool
	closedCh chan struct{}

	// Statistics
	Reconnects int
}

// Subscription is a simulated subscription.
type Subscription struct {
	Subject string
	Queue   string // queue group: of the members of a group that match a message exactly one receives it

	conn       *Conn
	idx        int
	cb         MsgHandler
	inbox      []*Msg
	busy       bool
	closed     bool
	draining   bool
	unsubAcked bool // the server has processed the UNSUB
	registered bool // the server routes to it
	isReq      bool
	reqCh      chan *Msg
	ch         chan *Msg
	done       chan struct{}
	delivered  uint64
	stalled    bool // the consumer is stalled (fault injection): nothing is dispatched to it, its inbox grows
	busyBytes  int // size of the message the callback is handling (it counts as pending until the callback returns)
	limMsgs    int // pending limits as in nats.go (0: the library defaults, 524288 messages / 64 MiB)
	limBytes   int
}

// World holds all servers and connections of one simulated run.
type World struct {
	mu      sync.Mutex
	servers map[string]*Server // by alias
	conns   []*Conn
	seq     uint64
	wakeCh  chan struct{}

	// Partitioned host aliases: connecting through them fails.
	partitioned map[string]bool

	// Inline mode: no goroutines; publish routes and dispatches on the
	// caller's goroutine (used by the single-threaded crash child).
	Inline bool

	// Observer is called (with the world lock held; it must not call back
	// into the world) for every routed operation and every dispatch.
	Observer func(ev BusEvent)

	// Stats
	Stats Stats
}

// Stats counts what the bus did.
type Stats struct {
	Routed, Dispatched, NoResponders, DroppedUplink, DroppedInbound, DroppedClosed int
	Cuts, Reconnects, ConnectFails, ReqTimeouts, BufExceeded                       int
	SlowConsumerDrops                                                              int
}

// BusEvent is what an Observer sees.
type BusEvent struct {
	Kind    string // "publish" (a client handed a PUB to its connection), "route", "dispatch", "done" (callback returned)
	Op      *Op
	Conn    *Conn
	Sub     *Subscription
	Msg     *Msg
	Matched []*Subscription
}

var defaultWorld *World

// NewWorld creates an empty world and makes it the one nats.Connect uses.
func NewWorld() *World {
	w := &World{
		servers:     map[string]*Server{},
		wakeCh:      make(chan struct{}, 1),
		partitioned: map[string]bool{},
	}
	defaultWorld = w
	return w
}

// AddServer registers a server reachable under the given host aliases.
func (w *World) AddServer(name, token string, aliases ...string) *Server {
	w.mu.Lock()
	defer w.mu.Unlock()
	s := &Server{Name: name, Token: token, Up: true, aliases: append([]string{name}, aliases...)}
	for _, a := range s.aliases {
		w.servers[a] = s
	}
	return s
}

// WakeCh is signalled (capacity one) whenever bus work appears.
func (w *World) WakeCh() <-chan struct{} { return w.wakeCh }

// Wake signals the scheduler that work appeared.
func (w *World) Wake() { w.wake() }

func (w *World) wake() {
	select {
	case w.wakeCh <- struct{}{}:
	default:
	}
}

func hostOf(url string) string {
	u := strings.TrimSpace(url)
	if i := strings.Index(u, "://"); i >= 0 {
		u = u[i+3:]
	}
	if i := strings.Index(u, "@"); i >= 0 {
		u = u[i+1:]
	}
	if i := strings.IndexAny(u, ":/"); i >= 0 {
		u = u[:i]
	}
	return u
}

// Connect opens a connection in the current world.
func Connect(url string, options ...Option) (*Conn, error) {
	w := defaultWorld
	if w == nil {
		return nil, errors.New("simnats: no world")
	}
	o := Options{Url: url, AllowReconnect: true, MaxReconnect: 60, ReconnectWait: 2 * time.Second,
		Timeout: 2 * time.Second, ReconnectBufSize: 8 * 1024 * 1024}
	for _, f := range options {
		if f != nil {
			if err := f(&o); err != nil {
				return nil, err
			}
		}
	}
	w.mu.Lock()
	c := &Conn{w: w, ID: len(w.conns), Host: hostOf(url), Opts: o, reqs: map[string]*Subscription{},
		cbWake: make(chan struct{}, 1), closedCh: make(chan struct{})}
	c.Name = o.Name
	if c.Name == "" {
		c.Name = fmt.Sprintf("c%d", c.ID)
	}
	err := w.tryAttach(c)
	if err != nil && !o.RetryOnFailedConnect {
		w.Stats.ConnectFails++
		w.mu.Unlock()
		return nil, err
	}
	w.conns = append(w.conns, c)
	if !w.Inline {
		go c.callbackLoop()
	}
	if err != nil {
		w.Stats.ConnectFails++
		c.state = stReconnecting
		c.initc = true
		if !w.Inline {
			go c.reconnectLoop()
		}
	} else {
		c.state = stConnected
		if o.ConnectedCB != nil {
			c.pushCB(func() { o.ConnectedCB(c) })
		}
	}
	w.mu.Unlock()
	return c, nil
}

// tryAttach checks reachability and credentials. Lock held.
func (w *World) tryAttach(c *Conn) error {
	s := w.servers[c.Host]
	if s == nil || !s.Up || w.partitioned[c.Host] {
		return ErrNoServers
	}
	if s.Token != "" && s.Token != c.Opts.Token {
		return ErrAuthorization
	}
	c.Srv = s
	return nil
}

func (c *Conn) pushCB(f func()) {
	if c.w.Inline {
		return // handlers are not run in inline mode
	}
	c.cbq = append(c.cbq, f)
	select {
	case c.cbWake <- struct{}{}:
	default:
	}
}

func (c *Conn) callbackLoop() {
	for {
		<-c.cbWake
		for {
			c.w.mu.Lock()
			if len(c.cbq) == 0 {
				exit := c.cbExit
				c.w.mu.Unlock()
				if exit {
					return
				}
				break
			}
			f := c.cbq[0]
			c.cbq = c.cbq[1:]
			c.w.mu.Unlock()
			f()
		}
	}
}

func (c *Conn) reconnectLoop() {
	attempts := 0
	for {
		attempts++
		var d time.Duration
		if c.Opts.CustomReconnectDelayCB != nil {
			d = c.Opts.CustomReconnectDelayCB(attempts)
		} else {
			d = c.Opts.ReconnectWait
		}
		t := time.NewTimer(d)
		select {
		case <-t.C:
		case <-c.closedCh:
			t.Stop()
			return
		}
		w := c.w
		w.mu.Lock()
		if c.state == stClosed {
			w.mu.Unlock()
			return
		}
		if c.state == stConnected {
			w.mu.Unlock()
			return
		}
		if err := w.tryAttach(c); err != nil {
			w.Stats.ConnectFails++
			w.mu.Unlock()
			continue
		}
		// reconnected: resend subscriptions, then flush the pending buffer
		c.state = stConnected
		c.Reconnects++
		w.Stats.Reconnects++
		var ops []*Op
		for _, s := range c.subs {
			if !s.closed && !s.isReq {
				ops = append(ops, &Op{Kind: opSub, Subject: s.Subject, Sub: s})
			}
		}
		c.uplink = append(ops, c.pending...)
		c.pending = nil
		c.pendSize = 0
		// nats.go v1.31.0 queues the Reconnected callback here, also when this completes an initial connect that was
		// retried (RetryOnFailedConnect): confirmed by the conformance suite against the real library
		c.initc = false
		if cb := c.Opts.ReconnectedCB; cb != nil {
			c.pushCB(func() { cb(c) })
		}
		w.wake()
		w.mu.Unlock()
		return
	}
}

// TLSRequired reports false.
func (c *Conn) TLSRequired() bool { return false }

// IsConnected reports the connection state.
func (c *Conn) IsConnected() bool {
	c.w.mu.Lock()
	defer c.w.mu.Unlock()
	return c.state == stConnected
}

func validSubject(s string) bool {
	return s != "" && !strings.ContainsAny(s, " \t\r\n")
}

// enqueue appends an operation to the uplink or the reconnect buffer. Lock held.
func (c *Conn) enqueue(o *Op) error {
	switch c.state {
	case stClosed:
		return ErrConnectionClosed
	case stReconnecting:
		if o.Kind == opPub {
			sz := len(o.Subject) + len(o.Reply) + len(o.Data) + 16
			if c.Opts.ReconnectBufSize >= 0 && c.pendSize+sz > c.Opts.ReconnectBufSize {
				c.w.Stats.BufExceeded++
				return ErrReconnectBufExceeded
			}
			c.pendSize += sz
			c.pending = append(c.pending, o)
			if c.w.Observer != nil {
				c.w.Observer(BusEvent{Kind: "publish", Op: o, Conn: c})
			}
		}
		// SUB/UNSUB while reconnecting only change client state; the
		// subscription list is re-sent on reconnect.
		return nil
	}
	c.uplink = append(c.uplink, o)
	if c.w.Observer != nil {
		switch o.Kind {
		case opPub:
			c.w.Observer(BusEvent{Kind: "publish", Op: o, Conn: c})
		case opSub:
			c.w.Observer(BusEvent{Kind: "subscribe", Op: o, Conn: c, Sub: o.Sub})
		case opUnsub:
			c.w.Observer(BusEvent{Kind: "unsubscribe", Op: o, Conn: c, Sub: o.Sub})
		}
	}
	c.w.wake()
	return nil
}

// Publish publishes data on subject.
func (c *Conn) Publish(subj string, data []byte) error {
	return c.publish(subj, "", data)
}

// PublishRequest publishes with a reply subject.
func (c *Conn) PublishRequest(subj, reply string, data []byte) error {
	return c.publish(subj, reply, data)
}

func (c *Conn) publish(subj, reply string, data []byte) error {
	if !validSubject(subj) {
		return ErrBadSubject
	}
	w := c.w
	w.mu.Lock()
	d := append([]byte(nil), data...)
	err := c.enqueue(&Op{Kind: opPub, Subject: subj, Reply: reply, Data: d})
	w.mu.Unlock()
	if err == nil && w.Inline {
		w.RunInline()
	}
	return err
}

// Flush is a no-op that waits for nothing (ordering is kept by the uplink).
func (c *Conn) Flush() error { return nil }

// Subscribe registers an asynchronous subscription.
func (c *Conn) Subscribe(subj string, cb MsgHandler) (*Subscription, error) {
	return c.subscribe(subj, "", cb)
}

// QueueSubscribe registers an asynchronous subscription that is a member of a queue group: the server hands each
// message to one member of the group (this bus picks it by the route sequence number: deterministic, and spread over
// the members).  An empty queue name gives a plain subscription, as in nats.go.
func (c *Conn) QueueSubscribe(subj, queue string, cb MsgHandler) (*Subscription, error) {
	if strings.ContainsAny(queue, " \t\r\n") {
		return nil, ErrBadQueueName
	}
	return c.subscribe(subj, queue, cb)
}

func (c *Conn) subscribe(subj, queue string, cb MsgHandler) (*Subscription, error) {
	if !validSubject(subj) {
		return nil, ErrBadSubject
	}
	if cb == nil {
		return nil, errors.New("nats: nil callback")
	}
	w := c.w
	w.mu.Lock()
	if c.state == stClosed {
		w.mu.Unlock()
		return nil, ErrConnectionClosed
	}
	s := &Subscription{Subject: subj, Queue: queue, conn: c, idx: c.nextSub, cb: cb,
		ch: make(chan *Msg), done: make(chan struct{})}
	c.nextSub++
	c.subs = append(c.subs, s)
	_ = c.enqueue(&Op{Kind: opSub, Subject: subj, Sub: s})
	w.mu.Unlock()
	if !w.Inline {
		go s.deliverLoop()
	} else {
		w.RunInline()
	}
	return s, nil
}

func (s *Subscription) deliverLoop() {
	for {
		select {
		case m := <-s.ch:
			s.cb(m)
			w := s.conn.w
			w.mu.Lock()
			s.busy = false
			s.delivered++
			s.checkDrainedLocked()
			if w.Observer != nil {
				w.Observer(BusEvent{Kind: "done", Conn: s.conn, Sub: s, Msg: m})
			}
			w.wake()
			w.mu.Unlock()
		case <-s.done:
			return
		}
	}
}

// Request sends a request and waits for one reply.
func (c *Conn) Request(subj string, data []byte, timeout time.Duration) (*Msg, error) {
	if !validSubject(subj) {
		return nil, ErrBadSubject
	}
	w := c.w
	w.mu.Lock()
	if c.state == stClosed {
		w.mu.Unlock()
		return nil, ErrConnectionClosed
	}
	c.nextReq++
	inbox := fmt.Sprintf("_INBOX.%s.%d", c.Name, c.nextReq)
	rs := &Subscription{Subject: inbox, conn: c, idx: -c.nextReq, isReq: true, registered: true,
		reqCh: make(chan *Msg, 1)}
	c.reqs[inbox] = rs
	d := append([]byte(nil), data...)
	err := c.enqueue(&Op{Kind: opPub, Subject: subj, Reply: inbox, Data: d})
	if err != nil {
		delete(c.reqs, inbox)
		w.mu.Unlock()
		return nil, err
	}
	w.mu.Unlock()

	if w.Inline {
		w.RunInline()
		w.mu.Lock()
		delete(c.reqs, inbox)
		w.mu.Unlock()
		select {
		case m := <-rs.reqCh:
			if m.status == 503 {
				return nil, ErrNoResponders
			}
			return m, nil
		default:
			return nil, ErrTimeout
		}
	}

	t := time.NewTimer(timeout)
	defer t.Stop()
	select {
	case m := <-rs.reqCh:
		w.mu.Lock()
		delete(c.reqs, inbox)
		w.mu.Unlock()
		if m.status == 503 {
			return nil, ErrNoResponders
		}
		return m, nil
	case <-t.C:
		w.mu.Lock()
		delete(c.reqs, inbox)
		rs.closed = true
		rs.inbox = nil
		w.Stats.ReqTimeouts++
		w.mu.Unlock()
		return nil, ErrTimeout
	case <-c.closedCh:
		w.mu.Lock()
		delete(c.reqs, inbox)
		rs.closed = true
		w.mu.Unlock()
		return nil, ErrConnectionClosed
	}
}

// Close closes the connection: what was published is still delivered, queued
// inbound messages are dropped, Disconnected then Closed handlers are queued.
func (c *Conn) Close() {
	w := c.w
	w.mu.Lock()
	if c.state == stClosed {
		w.mu.Unlock()
		return
	}
	was := c.state
	if was == stConnected {
		c.uplink = append(c.uplink, &Op{Kind: opClose})
	} else {
		c.pending = nil
	}
	c.state = stClosed
	for _, s := range c.subs {
		s.closeLocked()
	}
	for _, r := range c.reqs {
		r.closed = true
		r.inbox = nil
	}
	close(c.closedCh)
	if was == stConnected {
		if cb := c.Opts.DisconnectedCB; cb != nil {
			c.pushCB(func() { cb(c) })
		}
	}
	if cb := c.Opts.ClosedCB; cb != nil {
		c.pushCB(func() { cb(c) })
	}
	c.cbExit = true
	select {
	case c.cbWake <- struct{}{}:
	default:
	}
	w.wake()
	w.mu.Unlock()
	if w.Inline {
		w.RunInline()
	}
}

func (s *Subscription) closeLocked() {
	if s.closed {
		return
	}
	s.closed = true
	s.inbox = nil
	if s.done != nil {
		close(s.done)
	}
}

// Unsubscribe removes interest; queued messages are dropped, a callback in
// progress completes.
func (s *Subscription) Unsubscribe() error {
	if s == nil {
		return ErrBadSubscription
	}
	w := s.conn.w
	w.mu.Lock()
	defer w.mu.Unlock()
	if s.closed {
		return ErrBadSubscription
	}
	if s.conn.state == stClosed {
		return ErrConnectionClosed
	}
	s.closeLocked()
	_ = s.conn.enqueue(&Op{Kind: opUnsub, Subject: s.Subject, Sub: s})
	return nil
}

// Drain removes interest but delivers what is already queued or in flight.
func (s *Subscription) Drain() error {
	if s == nil {
		return ErrBadSubscription
	}
	w := s.conn.w
	w.mu.Lock()
	defer w.mu.Unlock()
	if s.closed {
		return ErrBadSubscription
	}
	if s.conn.state == stClosed {
		return ErrConnectionClosed
	}
	if s.draining {
		return nil
	}
	s.draining = true
	if s.conn.state != stConnected {
		s.unsubAcked = true
	}
	_ = s.conn.enqueue(&Op{Kind: opUnsub, Subject: s.Subject, Sub: s})
	s.checkDrainedLocked()
	return nil
}

func (s *Subscription) checkDrainedLocked() {
	if s.draining && s.unsubAcked && !s.closed && len(s.inbox) == 0 && !s.busy {
		s.closeLocked()
	}
}

// IsValid reports whether the subscription is still active.
func (s *Subscription) IsValid() bool {
	if s == nil {
		return false
	}
	w := s.conn.w
	w.mu.Lock()
	defer w.mu.Unlock()
	s.checkDrainedLocked()
	return !s.closed
}

// Defaults of nats.go for the pending limits of a subscription.
const (
	DefaultSubPendingMsgsLimit  = 512 * 1024
	DefaultSubPendingBytesLimit = 64 * 1024 * 1024
)

// SetPendingLimits sets the limits for queued messages and bytes of this subscription (negative: unlimited), as in
// nats.go: a message that would exceed them is dropped (slow consumer).
func (s *Subscription) SetPendingLimits(msgLimit, bytesLimit int) error {
	if s == nil {
		return ErrBadSubscription
	}
	if msgLimit == 0 || bytesLimit == 0 {
		return errors.New("nats: invalid argument")
	}
	w := s.conn.w
	w.mu.Lock()
	defer w.mu.Unlock()
	if s.closed {
		return ErrBadSubscription
	}
	s.limMsgs, s.limBytes = msgLimit, bytesLimit
	return nil
}

// Pending returns the number of queued messages and bytes.
func (s *Subscription) Pending() (int, int, error) {
	if s == nil {
		return -1, -1, ErrBadSubscription
	}
	w := s.conn.w
	w.mu.Lock()
	defer w.mu.Unlock()
	if s.closed {
		return -1, -1, ErrBadSubscription
	}
	b := 0
	for _, m := range s.inbox {
		b += len(m.Data)
	}
	return len(s.inbox), b, nil
}

// ---------------------------------------------------------------------------
// subject matching (server sublist semantics)

func subjectMatches(pattern, subject string) bool {
	pt := strings.Split(pattern, ".")
	st := strings.Split(subject, ".")
	for _, t := range st {
		if t == "" {
			return false // a subject with an empty token matches nothing
		}
	}
	for i, p := range pt {
		if p == "" {
			return false
		}
		if p == ">" {
			return i == len(pt)-1 && len(st) > i
		}
		if i >= len(st) {
			return false
		}
		if p == "*" {
			continue
		}
		if p != st[i] {
			return false
		}
	}
	return len(pt) == len(st)
}

// SubjectMatches is exported for the harness and the conformance suite.
func SubjectMatches(pattern, subject string) bool { return subjectMatches(pattern, subject) }

// ---------------------------------------------------------------------------
// scheduler interface

// EvKind is the kind of a bus event the scheduler can execute.
type EvKind int

const (
	EvRoute    EvKind = iota // the server processes the head of a connection's uplink
	EvDispatch               // the head of a subscription's inbox is handed to its callback
)

// Event is one enabled bus event.
type Event struct {
	Kind EvKind
	Conn *Conn
	Sub  *Subscription
	Seq  uint64 // for dispatch: route sequence number of the message (age)
	key  string
}

// Key is a stable textual identity of the event (computed under the world lock when the event was listed).
func (e Event) Key() string { return e.key }

// Enabled lists the enabled bus events: dispatches first (oldest message
// first), then routes in connection order. Call only at quiescence.
func (w *World) Enabled() []Event {
	w.mu.Lock()
	defer w.mu.Unlock()
	var evs []Event
	for _, c := range w.conns {
		for _, s := range c.subs {
			if !s.closed && !s.busy && !s.stalled && len(s.inbox) > 0 {
				evs = append(evs, Event{Kind: EvDispatch, Conn: c, Sub: s, Seq: s.inbox[0].Seq,
					key: fmt.Sprintf("dispatch %s#%d %s", c.Name, s.idx, s.inbox[0].Subject)})
			}
		}
		if len(c.reqs) > 0 {
			keys := make([]string, 0, len(c.reqs))
			for k := range c.reqs {
				keys = append(keys, k)
			}
			sort.Strings(keys)
			for _, k := range keys {
				s := c.reqs[k]
				if !s.closed && len(s.inbox) > 0 {
					evs = append(evs, Event{Kind: EvDispatch, Conn: c, Sub: s, Seq: s.inbox[0].Seq,
						key: fmt.Sprintf("dispatch %s#%d %s", c.Name, s.idx, s.inbox[0].Subject)})
				}
			}
		}
	}
	sort.SliceStable(evs, func(i, j int) bool { return evs[i].Seq < evs[j].Seq })
	for _, c := range w.conns {
		if len(c.uplink) > 0 && (c.state == stConnected || c.state == stClosed) {
			o := c.uplink[0]
			evs = append(evs, Event{Kind: EvRoute, Conn: c, key: fmt.Sprintf("route %s %s %s", c.Name, o.Kind, o.Subject)})
		}
	}
	return evs
}

// Exec executes one enabled event.
func (w *World) Exec(e Event) {
	w.mu.Lock()
	switch e.Kind {
	case EvRoute:
		w.routeLocked(e.Conn)
		w.mu.Unlock()
	case EvDispatch:
		s := e.Sub
		if s.closed || len(s.inbox) == 0 || s.busy {
			w.mu.Unlock()
			return
		}
		m := s.inbox[0]
		s.inbox = s.inbox[1:]
		w.Stats.Dispatched++
		if w.Observer != nil {
			w.Observer(BusEvent{Kind: "dispatch", Conn: s.conn, Sub: s, Msg: m})
		}
		if s.isReq {
			s.closed = true // one reply per request
			s.inbox = nil
			w.mu.Unlock()
			s.reqCh <- m
			return
		}
		s.busy = true
		s.busyBytes = len(m.Data)
		w.mu.Unlock()
		if w.Inline {
			s.cb(m)
			w.mu.Lock()
			s.busy = false
			s.delivered++
			s.checkDrainedLocked()
			w.mu.Unlock()
			return
		}
		s.ch <- m
	}
}

// routeLocked lets the server process the head operation of c's uplink.
func (w *World) routeLocked(c *Conn) {
	if len(c.uplink) == 0 {
		return
	}
	o := c.uplink[0]
	c.uplink = c.uplink[1:]
	w.Stats.Routed++
	switch o.Kind {
	case opSub:
		if !o.Sub.closed {
			o.Sub.registered = true
		}
		if w.Observer != nil {
			w.Observer(BusEvent{Kind: "route", Op: o, Conn: c})
		}
	case opUnsub:
		o.Sub.registered = false
		o.Sub.unsubAcked = true
		o.Sub.checkDrainedLocked()
		if w.Observer != nil {
			w.Observer(BusEvent{Kind: "route", Op: o, Conn: c})
		}
	case opClose:
		for _, s := range c.subs {
			s.registered = false
		}
		if w.Observer != nil {
			w.Observer(BusEvent{Kind: "route", Op: o, Conn: c})
		}
	case opPub:
		w.seq++
		var matched []*Subscription
		for _, rc := range w.conns {
			if rc.Srv != c.Srv || rc.state != stConnected {
				continue
			}
			if rc == c && c.Opts.NoEcho {
				continue
			}
			for _, s := range rc.subs {
				if s.registered && !s.closed && subjectMatches(s.Subject, o.Subject) {
					matched = append(matched, s)
				}
			}
			if strings.HasPrefix(o.Subject, "_INBOX.") {
				if s := rc.reqs[o.Subject]; s != nil && !s.closed {
					matched = append(matched, s)
				}
			}
		}
		// queue groups: one member per (queue, subject pattern) group receives the message
		groups := map[[2]string][]*Subscription{}
		for _, s := range matched {
			if s.Queue != "" {
				k := [2]string{s.Queue, s.Subject}
				groups[k] = append(groups[k], s)
			}
		}
		if len(groups) > 0 {
			kept := matched[:0:0]
			for _, s := range matched {
				if s.Queue == "" {
					kept = append(kept, s)
					continue
				}
				g := groups[[2]string{s.Queue, s.Subject}]
				if g[int(w.seq%uint64(len(g)))] == s {
					kept = append(kept, s)
				}
			}
			matched = kept
		}
		for _, s := range matched {
			s.conn.arrival++
			m := &Msg{Subject: o.Subject, Reply: o.Reply, Data: o.Data, Sub: s, Seq: w.seq, From: c,
				arrival: s.conn.arrival}
			// slow consumer: nats.go drops a message that would take the subscription over its pending limits
			lm, lb := s.limMsgs, s.limBytes
			if lm == 0 {
				lm = DefaultSubPendingMsgsLimit
			}
			if lb == 0 {
				lb = DefaultSubPendingBytesLimit
			}
			pb, pn := len(m.Data), len(s.inbox)+1
			for _, q := range s.inbox {
				pb += len(q.Data)
			}
			if s.busy { // nats.go accounts for a delivered message when its callback has returned
				pn++
				pb += s.busyBytes
			}
			if (lm > 0 && pn > lm) || (lb > 0 && pb > lb) {
				w.Stats.SlowConsumerDrops++
				continue
			}
			s.inbox = append(s.inbox, m)
		}
		if len(matched) == 0 && o.Reply != "" {
			// no responders: status message to the requester
			if rs := c.reqs[o.Reply]; rs != nil && !rs.closed && c.state == stConnected {
				w.Stats.NoResponders++
				c.arrival++
				rs.inbox = append(rs.inbox, &Msg{Subject: o.Reply, Sub: rs, Seq: w.seq, status: 503,
					arrival: c.arrival})
			}
		}
		if w.Observer != nil {
			w.Observer(BusEvent{Kind: "route", Op: o, Conn: c, Matched: matched})
		}
	}
}

// RunInline routes and dispatches until nothing is left (inline mode only).
func (w *World) RunInline() {
	for {
		evs := w.Enabled()
		if len(evs) == 0 {
			return
		}
		// FIFO: routes before dispatches keeps publish order; pick the first route if any
		pick := evs[0]
		for _, e := range evs {
			if e.Kind == EvRoute {
				pick = e
				break
			}
		}
		w.Exec(pick)
	}
}

// ---------------------------------------------------------------------------
// faults

// CutLink breaks a connection: everything in flight towards the server is
// lost, inbound messages that arrived on the connection after the keepInbound
// oldest ones are lost, the server forgets its subscriptions, and the client
// starts reconnecting (buffering publishes meanwhile).
func (w *World) CutLink(c *Conn, keepInbound int) {
	w.mu.Lock()
	defer w.mu.Unlock()
	w.cutLocked(c, keepInbound)
}

func (w *World) cutLocked(c *Conn, keepInbound int) {
	if c.state != stConnected {
		return
	}
	w.Stats.Cuts++
	for _, o := range c.uplink {
		if o.Kind == opPub {
			w.Stats.DroppedUplink++
		}
	}
	c.uplink = nil
	// inbound: find arrival numbers of queued messages, keep the oldest keepInbound
	var arr []uint64
	for _, s := range c.allSubs() {
		for _, m := range s.inbox {
			arr = append(arr, m.arrival)
		}
	}
	sort.Slice(arr, func(i, j int) bool { return arr[i] < arr[j] })
	if keepInbound < len(arr) {
		limit := uint64(0)
		if keepInbound > 0 {
			limit = arr[keepInbound-1]
		}
		for _, s := range c.allSubs() {
			k := s.inbox[:0]
			for _, m := range s.inbox {
				if m.arrival <= limit {
					k = append(k, m)
				} else {
					w.Stats.DroppedInbound++
				}
			}
			s.inbox = k
		}
	}
	for _, s := range c.subs {
		s.registered = false
		if s.draining {
			s.unsubAcked = true
			s.checkDrainedLocked()
		}
	}
	c.state = stReconnecting
	if cb := c.Opts.DisconnectedCB; cb != nil {
		c.pushCB(func() { cb(c) })
	}
	if !c.Opts.AllowReconnect {
		return
	}
	if !w.Inline {
		go c.reconnectLoop()
	}
}

func (c *Conn) allSubs() []*Subscription {
	out := append([]*Subscription(nil), c.subs...)
	keys := make([]string, 0, len(c.reqs))
	for k := range c.reqs {
		keys = append(keys, k)
	}
	sort.Strings(keys)
	for _, k := range keys {
		out = append(out, c.reqs[k])
	}
	return out
}

// InboundQueued returns the number of messages queued towards c.
func (w *World) InboundQueued(c *Conn) int {
	w.mu.Lock()
	defer w.mu.Unlock()
	n := 0
	for _, s := range c.allSubs() {
		n += len(s.inbox)
	}
	return n
}

// SetPartitioned makes a host alias unreachable (existing connections through
// it are cut with all in-flight traffic lost) or reachable again.
func (w *World) SetPartitioned(host string, down bool) {
	w.mu.Lock()
	defer w.mu.Unlock()
	w.partitioned[host] = down
	if down {
		for _, c := range w.conns {
			if c.Host == host {
				w.cutLocked(c, 0)
			}
		}
	}
}

// SetServerUp stops or starts a server. Stopping cuts every connection.
func (w *World) SetServerUp(name string, up bool) {
	w.mu.Lock()
	defer w.mu.Unlock()
	s := w.servers[name]
	if s == nil {
		return
	}
	s.Up = up
	if !up {
		for _, c := range w.conns {
			if c.Srv == s {
				w.cutLocked(c, 0)
			}
		}
	}
}

// Conns returns the connections in creation order.
func (w *World) Conns() []*Conn {
	w.mu.Lock()
	defer w.mu.Unlock()
	return append([]*Conn(nil), w.conns...)
}

// Connected reports whether c is connected.
func (w *World) Connected(c *Conn) bool {
	w.mu.Lock()
	defer w.mu.Unlock()
	return c.state == stConnected
}

// StallSubs stalls (or releases) the subscriptions of a connection on the given subject: a stalled consumer is handed
// nothing, the messages routed to it queue up (fault injection: a slow or stalled node).
func (w *World) StallSubs(c *Conn, subject string, on bool) {
	w.mu.Lock()
	for _, s := range c.subs {
		if s.Subject == subject {
			s.stalled = on
		}
	}
	w.mu.Unlock()
	w.wake()
}

// Idle reports whether no operation is queued anywhere and no callback runs.
func (w *World) Idle() bool {
	w.mu.Lock()
	defer w.mu.Unlock()
	for _, c := range w.conns {
		if len(c.uplink) > 0 && c.state != stReconnecting {
			return false
		}
		for _, s := range c.allSubs() {
			// a callback that is still running on a subscription the application has unsubscribed (or closed) is
			// the application's own business; if it goes on to use the bus, that shows in an uplink
			if !s.closed && (s.busy || len(s.inbox) > 0) {
				return false
			}
		}
	}
	return true
}

// BusySubs lists subscriptions whose callback is in progress.
func (w *World) BusySubs() []string {
	w.mu.Lock()
	defer w.mu.Unlock()
	var out []string
	for _, c := range w.conns {
		for _, s := range c.subs {
			if s.busy {
				out = append(out, fmt.Sprintf("%s#%d %s", c.Name, s.idx, s.Subject))
			}
		}
	}
	return out
}

// ConnOf returns the connection a subscription belongs to.
func (s *Subscription) ConnOf() *Conn { return s.conn }

// Index returns the subscription's index within its connection.
func (s *Subscription) Index() int { return s.idx }

// IsRequestInbox reports whether this is a request's private reply inbox.
func (s *Subscription) IsRequestInbox() bool { return s.isReq }

// HeadOp returns the head of the uplink (nil if empty). Call at quiescence.
func (c *Conn) HeadOp() *Op {
	c.w.mu.Lock()
	defer c.w.mu.Unlock()
	if len(c.uplink) == 0 {
		return nil
	}
	return c.uplink[0]
}
