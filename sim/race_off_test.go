//go:build !race

package sim

const raceBuild = false

func raceDisable() {}
func raceEnable()  {}
