// Conformance scenarios: the same program is built twice, against the real nats.go + an in-process nats-server
// (-tags real) and against /verif/simnats with an eager FIFO pump (-tags sim). It prints one canonical JSON document of
// observations; the two outputs must be identical. This validates the behaviours of core NATS that the simulated bus
// mirrors and the code under test relies on.
package main

import (
	"encoding/json"
	"fmt"
	"os"
	"sort"
	"strings"
	"sync"
	"time"

	"github.com/nats-io/nats.go"
)

type env interface {
	URL() string
	Stop()
	Start()
}

var obs = map[string]any{}

func errClass(err error) string {
	if err == nil {
		return "nil"
	}
	s := strings.ToLower(err.Error())
	switch {
	case strings.Contains(s, "no responders"):
		return "no-responders"
	case strings.Contains(s, "timeout"):
		return "timeout"
	case strings.Contains(s, "authorization"):
		return "authorization"
	case strings.Contains(s, "no servers"):
		return "no-servers"
	case strings.Contains(s, "connection closed"):
		return "closed"
	case strings.Contains(s, "invalid subscription"):
		return "bad-subscription"
	}
	return "other:" + s
}

func must(err error) {
	if err != nil {
		fmt.Fprintln(os.Stderr, "FATAL", err)
		os.Exit(2)
	}
}

const wait = 150 * time.Millisecond

func main() {
	e := newEnv("")
	// 1. subject matching
	{
		nc, err := nats.Connect(e.URL())
		must(err)
		pub, err := nats.Connect(e.URL())
		must(err)
		patterns := []string{"p.*", "p.*.*", "up.>", "up.root.>", "nodes.*.*", ">", "up.*.*", "a.b", "auth.user"}
		subjects := []string{"p.a", "p.a.b", "p.", "p..b", "up.x", "up.x.y", "up.x.y.z", "up.root.n", "nodes.a.b", "nodes.a", "a.b", "a.b.c", "auth.user", "p.a.b.c"}
		var mu sync.Mutex
		got := map[string][]string{}
		for _, p := range patterns {
			p := p
			_, err := nc.Subscribe(p, func(m *nats.Msg) { mu.Lock(); got[p] = append(got[p], m.Subject); mu.Unlock() })
			must(err)
		}
		must(nc.Flush())
		time.Sleep(wait)
		for _, s := range subjects {
			_ = pub.Publish(s, []byte("x"))
		}
		_ = pub.Flush()
		time.Sleep(wait)
		mu.Lock()
		for _, v := range got {
			sort.Strings(v)
		}
		obs["1-matching"] = got
		mu.Unlock()
		nc.Close()
		pub.Close()
	}
	// 2. per-publisher FIFO towards one subscription, interleaved with a second subject
	{
		nc, _ := nats.Connect(e.URL())
		pub, _ := nats.Connect(e.URL())
		var mu sync.Mutex
		var seq []string
		_, _ = nc.Subscribe("f.>", func(m *nats.Msg) { mu.Lock(); seq = append(seq, m.Subject+":"+string(m.Data)); mu.Unlock() })
		_ = nc.Flush()
		time.Sleep(wait)
		for i := 0; i < 50; i++ {
			_ = pub.Publish(fmt.Sprintf("f.%d", i%3), []byte(fmt.Sprint(i)))
		}
		_ = pub.Flush()
		time.Sleep(wait)
		mu.Lock()
		obs["2-fifo"] = strings.Join(seq, ",")
		mu.Unlock()
		nc.Close()
		pub.Close()
	}
	// 3. NoEcho
	{
		a, _ := nats.Connect(e.URL(), nats.NoEcho())
		b, _ := nats.Connect(e.URL())
		var mu sync.Mutex
		ca, cb := 0, 0
		_, _ = a.Subscribe("e.x", func(*nats.Msg) { mu.Lock(); ca++; mu.Unlock() })
		_, _ = b.Subscribe("e.x", func(*nats.Msg) { mu.Lock(); cb++; mu.Unlock() })
		_ = a.Flush()
		_ = b.Flush()
		time.Sleep(wait)
		_ = a.Publish("e.x", nil)
		_ = b.Publish("e.x", nil)
		_ = a.Flush()
		_ = b.Flush()
		time.Sleep(wait)
		mu.Lock()
		obs["3-noecho"] = fmt.Sprintf("noecho-conn got %d, other got %d", ca, cb)
		mu.Unlock()
		a.Close()
		b.Close()
	}
	// 4. request/reply, no responders, timeout, reply after timeout is dropped
	{
		rq, _ := nats.Connect(e.URL())
		rs, _ := nats.Connect(e.URL())
		_, _ = rs.Subscribe("q.echo", func(m *nats.Msg) { _ = m.Respond(append([]byte("re:"), m.Data...)) })
		_, _ = rs.Subscribe("q.mute", func(m *nats.Msg) {})
		_, _ = rs.Subscribe("q.two", func(m *nats.Msg) { _ = m.Respond([]byte("1")); _ = m.Respond([]byte("2")) })
		_ = rs.Flush()
		time.Sleep(wait)
		m, err := rq.Request("q.echo", []byte("hi"), time.Second)
		r := errClass(err)
		if m != nil {
			r += ":" + string(m.Data)
		}
		_, err2 := rq.Request("q.nobody", nil, time.Second)
		_, err3 := rq.Request("q.mute", nil, 200*time.Millisecond)
		m4, err4 := rq.Request("q.two", nil, time.Second)
		r4 := errClass(err4)
		if m4 != nil {
			r4 += ":" + string(m4.Data)
		}
		obs["4-request"] = []string{r, errClass(err2), errClass(err3), r4}
		rq.Close()
		rs.Close()
	}
	// 5. Unsubscribe drops queued messages, a running callback completes; Drain delivers them
	for _, mode := range []string{"unsubscribe", "drain"} {
		nc, _ := nats.Connect(e.URL())
		pub, _ := nats.Connect(e.URL())
		release := make(chan struct{})
		started := make(chan struct{}, 10)
		var mu sync.Mutex
		var got []string
		sub, _ := nc.Subscribe("u.x", func(m *nats.Msg) {
			started <- struct{}{}
			<-release
			mu.Lock()
			got = append(got, string(m.Data))
			mu.Unlock()
		})
		_ = nc.Flush()
		time.Sleep(wait)
		for i := 0; i < 3; i++ {
			_ = pub.Publish("u.x", []byte(fmt.Sprint(i)))
		}
		_ = pub.Flush()
		<-started
		time.Sleep(wait)
		var err error
		if mode == "unsubscribe" {
			err = sub.Unsubscribe()
		} else {
			err = sub.Drain()
		}
		validRightAfter := sub.IsValid()
		close(release)
		time.Sleep(2 * wait)
		_ = pub.Publish("u.x", []byte("late"))
		_ = pub.Flush()
		time.Sleep(wait)
		mu.Lock()
		obs["5-"+mode] = fmt.Sprintf("err=%s validRightAfter=%v validLater=%v delivered=%v second=%s", errClass(err), validRightAfter, sub.IsValid(), got,
			errClass(sub.Unsubscribe()))
		mu.Unlock()
		nc.Close()
		pub.Close()
	}
	// 6. Close: what was published is delivered; handler order
	{
		var mu sync.Mutex
		var evs []string
		note := func(s string) { mu.Lock(); evs = append(evs, s); mu.Unlock() }
		a, err := nats.Connect(e.URL(),
			nats.ConnectHandler(func(*nats.Conn) { note("connected") }),
			nats.DisconnectHandler(func(*nats.Conn) { note("disconnected") }),
			nats.ReconnectHandler(func(*nats.Conn) { note("reconnected") }),
			nats.ClosedHandler(func(*nats.Conn) { note("closed") }))
		must(err)
		b, _ := nats.Connect(e.URL())
		n := 0
		_, _ = b.Subscribe("c.x", func(*nats.Msg) { mu.Lock(); n++; mu.Unlock() })
		_ = b.Flush()
		time.Sleep(wait)
		for i := 0; i < 5; i++ {
			_ = a.Publish("c.x", nil)
		}
		a.Close()
		errAfter := a.Publish("c.x", nil)
		_, errSub := a.Subscribe("c.y", func(*nats.Msg) {})
		time.Sleep(2 * wait)
		mu.Lock()
		obs["6-close"] = fmt.Sprintf("delivered=%d handlers=%v publishAfterClose=%s subscribeAfterClose=%s", n, evs, errClass(errAfter), errClass(errSub))
		mu.Unlock()
		b.Close()
	}
	// 7. server restart: disconnect/reconnect handlers, publishes buffered during the outage, subscriptions resumed,
	//    messages published by others during the outage are lost (at most once)
	{
		var mu sync.Mutex
		var evs []string
		note := func(s string) { mu.Lock(); evs = append(evs, s); mu.Unlock() }
		a, err := nats.Connect(e.URL(), nats.ReconnectWait(100*time.Millisecond), nats.MaxReconnects(-1),
			nats.DisconnectHandler(func(*nats.Conn) { note("disconnected") }),
			nats.ReconnectHandler(func(*nats.Conn) { note("reconnected") }))
		must(err)
		b, _ := nats.Connect(e.URL(), nats.ReconnectWait(100*time.Millisecond), nats.MaxReconnects(-1))
		var got []string
		_, _ = b.Subscribe("r.x", func(m *nats.Msg) { mu.Lock(); got = append(got, string(m.Data)); mu.Unlock() })
		_ = b.Flush()
		time.Sleep(wait)
		_ = a.Publish("r.x", []byte("before"))
		_ = a.Flush()
		time.Sleep(wait)
		e.Stop()
		time.Sleep(2 * wait)
		errDuring := a.Publish("r.x", []byte("during")) // buffered
		_, errReq := a.Request("r.none", nil, 100*time.Millisecond)
		time.Sleep(wait)
		e.Start()
		time.Sleep(6 * wait)
		_ = a.Publish("r.x", []byte("after"))
		_ = a.Flush()
		time.Sleep(2 * wait)
		mu.Lock()
		sort.Strings(got) // 'during' is flushed on reconnect; whether b has re-subscribed by then is a race in reality
		hasBefore, hasAfter := false, false
		for _, g := range got {
			hasBefore = hasBefore || g == "before"
			hasAfter = hasAfter || g == "after"
		}
		obs["7-restart"] = fmt.Sprintf("handlers=%v publishDuring=%s requestDuring=%s before=%v after=%v", evs, errClass(errDuring), errClass(errReq), hasBefore, hasAfter)
		mu.Unlock()
		a.Close()
		b.Close()
	}
	// 8. token
	{
		t := newEnv("s3cret")
		_, e1 := nats.Connect(t.URL())
		_, e2 := nats.Connect(t.URL(), nats.Token("wrong"))
		c3, e3 := nats.Connect(t.URL(), nats.Token("s3cret"))
		obs["8-token"] = []string{errClass(e1), errClass(e2), errClass(e3)}
		if c3 != nil {
			c3.Close()
		}
		t.Stop()
	}
	// 9. RetryOnFailedConnect against a server that is down at first
	{
		d := newEnv("")
		d.Stop()
		var mu sync.Mutex
		var evs []string
		c, err := nats.Connect(d.URL(), nats.RetryOnFailedConnect(true), nats.ReconnectWait(100*time.Millisecond), nats.MaxReconnects(-1),
			nats.ConnectHandler(func(*nats.Conn) { mu.Lock(); evs = append(evs, "connected"); mu.Unlock() }),
			nats.ReconnectHandler(func(*nats.Conn) { mu.Lock(); evs = append(evs, "reconnected"); mu.Unlock() }),
			nats.DisconnectHandler(func(*nats.Conn) { mu.Lock(); evs = append(evs, "disconnected"); mu.Unlock() }))
		r := errClass(err)
		_, errNo := nats.Connect(d.URL())
		if c != nil {
			perr := c.Publish("z.x", []byte("early"))
			time.Sleep(wait)
			d.Start()
			time.Sleep(6 * wait)
			mu.Lock()
			obs["9-retry"] = fmt.Sprintf("connect=%s withoutRetry=%s publishWhileDown=%s handlers=%v connected=%v", r, errClass(errNo), errClass(perr), evs, c.IsConnected())
			mu.Unlock()
			c.Close()
		} else {
			obs["9-retry"] = "connect=" + r
		}
		d.Stop()
	}
	// 10. pending limits: a message that would take a subscription over its limits is dropped (slow consumer); the one
	// being handled does not count as pending
	{
		nc, _ := nats.Connect(e.URL())
		pub, _ := nats.Connect(e.URL())
		release := make(chan struct{})
		started := make(chan struct{}, 10)
		var mu sync.Mutex
		var got []string
		sub, _ := nc.Subscribe("l.x", func(m *nats.Msg) {
			started <- struct{}{}
			<-release
			mu.Lock()
			got = append(got, string(m.Data))
			mu.Unlock()
		})
		errLim := sub.SetPendingLimits(2, 1024)
		_ = nc.Flush()
		time.Sleep(wait)
		_ = pub.Publish("l.x", []byte("0"))
		_ = pub.Flush()
		<-started
		for i := 1; i < 6; i++ {
			_ = pub.Publish("l.x", []byte(fmt.Sprint(i)))
		}
		_ = pub.Flush()
		time.Sleep(wait)
		close(release)
		time.Sleep(2 * wait)
		_ = pub.Publish("l.x", []byte("big:"+strings.Repeat("x", 2000))) // over the byte limit on its own
		_ = pub.Publish("l.x", []byte("after"))
		_ = pub.Flush()
		time.Sleep(2 * wait)
		mu.Lock()
		var short []string
		for _, g := range got {
			if len(g) > 8 {
				g = g[:4] + "…"
			}
			short = append(short, g)
		}
		obs["10-pending-limits"] = fmt.Sprintf("set=%s delivered=%v zeroArg=%s", errClass(errLim), short, errClass(sub.SetPendingLimits(0, 10)))
		mu.Unlock()
		nc.Close()
		pub.Close()
	}
	// 11. queue groups: every message goes to exactly one member of a group (which one is the server's choice) and to
	// every plain subscriber; two groups are independent
	{
		a, _ := nats.Connect(e.URL())
		b, _ := nats.Connect(e.URL())
		pub, _ := nats.Connect(e.URL())
		var mu sync.Mutex
		cnt := map[string]int{}
		seen := map[string]int{}
		h := func(name string) nats.MsgHandler {
			return func(m *nats.Msg) {
				mu.Lock()
				cnt[name]++
				seen[name[:2]+string(m.Data)]++
				mu.Unlock()
			}
		}
		_, e1 := a.QueueSubscribe("q.x", "g1", h("g1a"))
		_, _ = b.QueueSubscribe("q.x", "g1", h("g1b"))
		_, _ = b.QueueSubscribe("q.*", "g2", h("g2b"))
		_, _ = a.Subscribe("q.x", h("plain"))
		_, e2 := a.QueueSubscribe("q.x", "", h("bad"))
		_ = a.Flush()
		_ = b.Flush()
		time.Sleep(wait)
		for i := 0; i < 12; i++ {
			_ = pub.Publish("q.x", []byte(fmt.Sprint(i)))
		}
		_ = pub.Flush()
		time.Sleep(2 * wait)
		mu.Lock()
		once := true
		for _, n := range seen {
			if n != 1 {
				once = false
			}
		}
		obs["11-queue-groups"] = fmt.Sprintf("sub=%s emptyQueue=%s g1=%d g2=%d plain=%d eachOncePerGroup=%v", errClass(e1), errClass(e2),
			cnt["g1a"]+cnt["g1b"], cnt["g2b"], cnt["plain"], once)
		mu.Unlock()
		a.Close()
		b.Close()
		pub.Close()
	}
	e.Stop()
	b, _ := json.MarshalIndent(obs, "", " ")
	fmt.Println(string(b))
}
