//go:build sim

package main

import (
	"fmt"
	"time"

	"github.com/nats-io/nats.go"
)

// eager FIFO pump: the simulated bus behaves like a fast network
var world *nats.World
var nSrv int

type simEnv struct{ name string }

func newEnv(token string) env {
	if world == nil {
		world = nats.NewWorld()
		go func() {
			for {
				evs := world.Enabled()
				if len(evs) == 0 {
					time.Sleep(200 * time.Microsecond)
					continue
				}
				// routes first keeps publish order ahead of delivery like a real server would
				pick := evs[0]
				world.Exec(pick)
			}
		}()
	}
	nSrv++
	e := &simEnv{name: fmt.Sprintf("srv%d", nSrv)}
	world.AddServer(e.name, token)
	return e
}

func (e *simEnv) URL() string { return "nats://" + e.name + ":4222" }
func (e *simEnv) Stop()       { world.SetServerUp(e.name, false) }
func (e *simEnv) Start()      { world.SetServerUp(e.name, true) }
