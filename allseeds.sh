#!/bin/bash
# allseeds.sh: every stored seeded change (seeded/<id>-agentN/patch.diff) against the quick check of its property, each
# applied to a scratch worktree of /repo (seedtest_wt.sh); one result line per seed. Superseded seeds are skipped.
cd /verif
for d in seeded/*-agent[0-9]; do
  id=$(basename $d | cut -d- -f1)
  out=$(BUDGET=${BUDGET:-30} ./seedtest_wt.sh $d/patch.diff $id 2>&1)
  if echo "$out" | grep -q "^VIOLATION"; then r="CAUGHT $(echo "$out" | grep '^--- ' | head -1 | cut -c1-200)"; elif echo "$out" | grep -qi "does not apply\|exit 2\|BUILD"; then r="INVALID $(echo "$out" | tail -3 | tr '\n' ' ' | cut -c1-200)"; else r="MISSED"; fi
  echo "$(basename $d): $r"
done
