#!/opt/veriftools/pyvenv/bin/python
import json,sys,glob,jsonschema
jsonschema.validate(json.load(open('/verif/MANIFEST.json')), json.load(open('/root/.vp/MANIFEST.schema.json')))
print('manifest ok')
s=json.load(open('/root/.vp/EVIDENCE.schema.json'))
for f in sorted(glob.glob('/verif/evidence/*.json')):
    jsonschema.validate(json.load(open(f)), s); print(f,'ok')
