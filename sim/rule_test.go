package sim

import (
	"fmt"
	"strings"
	"time"

	"github.com/nats-io/nats.go"
	"github.com/simpleiot/simpleiot/client"
	"github.com/simpleiot/simpleiot/data"
)

// C13 — a rule is active exactly when all of its conditions hold.
//
// The real RuleClient runs under the real Manager[Rule] on the simulated bus.
// The reference evaluator consumes exactly the stream the rule consumes: the
// batches the bus dispatches to the rule's "up.<parent>.*" subscription, in
// dispatch order, which includes the feedback of the rule's own writes.

type ruleModel struct {
	rule       client.Rule
	conds      []client.Condition
	acts       []client.Action
	inacts     []client.Action
	active     bool
	condActive []bool
	actActive  map[string]float64 // action node id -> expected active point value (absent: never written)
	setCount   map[string]int     // target|type -> number of set-value writes expected
	setLast    map[string]data.Point
	changes    int
	batches    int
	sched      map[int]schedSpec // index into conds -> calendar model of a schedule condition
}

func condMatches(c client.Condition, nodeID string, p data.Point) bool {
	if c.NodeID != "" && c.NodeID != nodeID {
		return false
	}
	if c.PointKey != "" && c.PointKey != p.Key {
		return false
	}
	if c.PointType != "" && c.PointType != p.Type {
		return false
	}
	return true
}

func condEval(c client.Condition, p data.Point) bool {
	switch c.ValueType {
	case data.PointValueNumber:
		switch c.Operator {
		case ">":
			return p.Value > c.Value
		case "<":
			return p.Value < c.Value
		case "=":
			return p.Value == c.Value
		case "!=":
			return p.Value != c.Value
		}
	case data.PointValueOnOff:
		return (c.Value != 0) == (p.Value != 0)
	case data.PointValueText:
		switch c.Operator {
		case "=":
			return p.Text == c.ValueText
		case "!=":
			return p.Text != c.ValueText
		case "contains":
			return strings.Contains(p.Text, c.ValueText)
		}
	}
	return false
}

// process is the sequential reference semantics of one batch.
func (m *ruleModel) process(nodeID string, pts data.Points) {
	m.batches++
	for _, p := range pts {
		for i, c := range m.conds {
			if c.ConditionType != data.PointValuePointValue {
				continue
			}
			if !condMatches(c, nodeID, p) {
				continue // no information for this condition
			}
			m.condActive[i] = condEval(c, p)
		}
	}
	m.recompute()
}

// evalSched is a schedule trigger processed at instant t: every schedule condition takes the calendar's value.
func (m *ruleModel) evalSched(t time.Time) {
	for i, sp := range m.sched {
		m.condActive[i] = sp.active(t)
	}
	m.recompute()
}

// recompute: the rule is active exactly when all conditions are; on a change the matching action list runs once.
func (m *ruleModel) recompute() {
	all := true
	for _, a := range m.condActive {
		if !a {
			all = false
		}
	}
	if all == m.active {
		return
	}
	m.active = all
	m.changes++
	m.runLists()
}

// configEdit: a parameter of the rule or of one of its conditions was changed while it runs.  The rule re-evaluates its
// schedule conditions at that instant and then runs the action list of the state it is in (once, whether or not the
// state changed).
func (m *ruleModel) configEdit(t time.Time) {
	for i, sp := range m.sched {
		m.condActive[i] = sp.active(t)
	}
	all := true
	for _, a := range m.condActive {
		if !a {
			all = false
		}
	}
	if all != m.active {
		m.active = all
		m.changes++
	}
	m.runLists()
}

// runLists: the list of the current state runs once, the opposite list is marked inactive.
func (m *ruleModel) runLists() {
	all := m.active
	run, other := m.acts, m.inacts
	if !all {
		run, other = m.inacts, m.acts
	}
	for _, a := range run {
		if a.Action == data.PointValueSetValue && a.NodeID != "" && a.PointType != "" {
			k := a.NodeID + "|" + a.PointType
			m.setCount[k]++
			m.setLast[k] = data.Point{Type: a.PointType, Value: a.Value, Text: a.ValueText, Origin: m.rule.ID}
		}
		m.actActive[a.ID] = 1
	}
	for _, a := range other {
		m.actActive[a.ID] = 0
	}
}

type ruleHarness struct {
	s     *Sim
	in    *Instance
	tr    *Tracker
	mnc   *nats.Conn
	m     *client.Manager[client.Rule]
	done  chan error
	model *ruleModel
	dirty bool
	subj  string
}

func (h *ruleHarness) observe(ev nats.BusEvent) {
	if ev.Kind != "dispatch" || ev.Sub.ConnOf() != h.mnc || ev.Sub.Subject != h.subj {
		return
	}
	ch := strings.Split(ev.Msg.Subject, ".")
	if len(ch) != 3 {
		return
	}
	pts, err := data.PbDecodePoints(ev.Msg.Data)
	if err != nil {
		return
	}
	h.model.process(ch[2], pts)
	h.dirty = true
}

func pointOf(pts data.Points, typ string) (data.Point, bool) {
	for _, p := range pts {
		if p.Type == typ && normKey(p.Key) == "0" {
			return p, true
		}
	}
	return data.Point{}, false
}

// compare checks the store against the model. Only when the bus is idle.
func (h *ruleHarness) compare(final bool) {
	s := h.s
	if !h.dirty && !final {
		return
	}
	h.dirty = false
	m := h.model
	get := func(parent, id string) (data.NodeEdge, bool) {
		n, err := h.in.GetNodes(parent, id, "", false)
		if err != nil || len(n) != 1 {
			s.Fail("C13", "harness", "cannot read %s/%s: %v (%d nodes)", parent, id, err, len(n))
			return data.NodeEdge{}, false
		}
		return n[0], true
	}
	for i, c := range m.conds {
		n, ok := get(m.rule.ID, c.ID)
		if !ok {
			return
		}
		p, _ := pointOf(n.Points, data.PointTypeActive)
		if c.ConditionType == data.PointValueSchedule {
			if (p.Value != 0) != m.condActive[i] {
				s.Fail("C13", "schedule-condition-active", "schedule condition %s (start=%s end=%s weekdays=%v dates=%v) is stored active=%v at %s, the trigger time falls %s its window",
					c.ID, c.Start, c.End, c.Weekdays, c.Dates, p.Value != 0, time.Now().UTC().Format(time.RFC3339), map[bool]string{true: "inside", false: "outside"}[m.condActive[i]])
				return
			}
			s.Probe(fmt.Sprintf("schedule-condition-compared-%v", m.condActive[i]))
			continue
		}
		if (p.Value != 0) != m.condActive[i] {
			s.Fail("C13", "condition-active", "condition %s (%s %s %s %v/%q, node=%q type=%q key=%q) is stored active=%v, the latest matching point processed by the rule makes it %v (after %d batches)",
				c.ID, c.ValueType, c.Operator, "", c.Value, c.ValueText, c.NodeID, c.PointType, c.PointKey, p.Value != 0, m.condActive[i], m.batches)
			return
		}
		if m.condActive[i] {
			s.Probe("cond-active-compared-true")
		}
	}
	rn, ok := get(m.rule.Parent, m.rule.ID)
	if !ok {
		return
	}
	rp, _ := pointOf(rn.Points, data.PointTypeActive)
	if (rp.Value != 0) != m.active {
		s.Fail("C13", "rule-active", "rule %s is stored active=%v but its conditions are %v (conjunction %v) after %d batches", m.rule.ID, rp.Value != 0, m.condActive, m.active, m.batches)
		return
	}
	check := func(list []client.Action) bool {
		for _, a := range list {
			n, ok := get(m.rule.ID, a.ID)
			if !ok {
				return false
			}
			p, has := pointOf(n.Points, data.PointTypeActive)
			want, expect := m.actActive[a.ID]
			if expect && (!has || p.Value != want) {
				s.Fail("C13", "action-active", "action %s is stored active=%v (present=%v), expected %v after %d rule state changes", a.ID, p.Value, has, want, m.changes)
				return false
			}
			if !expect && has && p.Value != 0 {
				s.Fail("C13", "action-active", "action %s is marked active although the rule never changed state", a.ID)
				return false
			}
		}
		return true
	}
	if !check(m.acts) || !check(m.inacts) {
		return
	}
	// set-value writes: exactly one per state change per action, with the configured content and the rule as origin
	h.tr.Process()
	got := map[string]int{}
	last := map[string]data.Point{}
	for _, w := range h.tr.Writes {
		if w.Edge || w.Refused != "" {
			continue
		}
		for _, p := range w.Pts {
			if p.Origin == m.rule.ID && w.From == h.mnc.Name && p.Type != data.PointTypeActive && p.Type != data.PointTypeError {
				k := w.NodeID + "|" + p.Type
				got[k]++
				last[k] = p
			}
		}
	}
	for k, n := range m.setCount {
		if got[k] != n {
			s.Fail("C13", "action-count", "set-value target %s was written %d times by the rule, expected exactly %d (one per change of the rule's state, %d changes)", k, got[k], n, m.changes)
			return
		}
		w, g := m.setLast[k], last[k]
		if g.Value != w.Value || g.Text != w.Text || g.Origin != w.Origin {
			s.Fail("C13", "action-content", "last set-value write to %s is %s, configured is value=%v text=%q origin=%q", k, fmtPoint(g), w.Value, w.Text, w.Origin)
			return
		}
	}
	for k, n := range got {
		if m.setCount[k] == 0 {
			s.Fail("C13", "action-count", "rule wrote %d unexpected set-value points to %s", n, k)
			return
		}
	}
	if m.changes > 0 {
		s.Probe("rule-state-changes")
	}
}

func sendType[T any](s *Sim, nc *nats.Conn, v T) {
	if err := client.SendNodeType(nc, v, "setup"); err != nil {
		s.Fail(s.Prop, "harness", "SendNodeType(%+v): %v", v, err)
	}
}

func (h *ruleHarness) startManager() {
	h.m = client.NewManager(h.mnc, client.NewRuleClient, nil)
	h.done = make(chan error, 1)
	m := h.m
	d := h.done
	go func() { d <- m.Run() }()
}

func (h *ruleHarness) stopManager() bool {
	s := h.s
	h.m.Stop(nil)
	deadline := time.Now().Add(15 * time.Second)
	for {
		s.quiesce()
		select {
		case <-h.done:
			return true
		default:
		}
		if s.StepOnce(false) {
			continue
		}
		if time.Now().After(deadline) {
			s.Fail("C07", "stop", "Manager[Rule].Run did not return within 15 simulated seconds of Stop")
			return false
		}
		s.sleepOrWake(time.Until(deadline))
	}
}

var valPool = []float64{0, 1, 2, 5, 10, -1, 0.5}
var textPool = []string{"", "on", "abc", "abcd", "x"}
var typePool = []string{"value", "temp"}
var keyPool = []string{"", "a", "b"}

func runC13(s *Sim) {
	wl := s.WL
	in := s.NewInstance("a", "")
	if s.Failed() {
		return
	}
	tr := in.Track()
	if s.Failed() {
		return
	}
	h := &ruleHarness{s: s, in: in, tr: tr}
	var err error
	h.mnc, err = nats.Connect(in.URL(), nats.Name("mgr"))
	if err != nil {
		s.Fail("C13", "harness", "connect: %v", err)
		return
	}
	s.cleanup = append(s.cleanup, h.mnc.Close)
	setup, _ := nats.Connect(in.URL(), nats.Name("setup"))
	s.cleanup = append(s.cleanup, setup.Close)
	root := in.RootID

	feedback := wl.Chance(1, 5) // a set-value target inside the rule's scope (its own writes come back to it)
	nConds := wl.Range(0, 4)
	if nConds == 0 && !wl.Chance(1, 6) {
		nConds = 1
	}
	rule := client.Rule{ID: "R", Parent: "g1", Description: "rule"}
	model := &ruleModel{rule: rule, actActive: map[string]float64{}, setCount: map[string]int{}, setLast: map[string]data.Point{}}
	h.model = model
	h.subj = "up.g1.*"
	sources := []string{"v1", "v2", "x1"}
	s.Call(func() {
		if err := client.SendNode(setup, data.NodeEdge{ID: "g1", Parent: root, Type: data.NodeTypeGroup,
			Points: data.Points{{Type: data.PointTypeDescription, Text: "scope"}}}, "setup"); err != nil {
			s.Fail(s.Prop, "harness", "create group: %v", err)
		}
		sendType(s, setup, client.Variable{ID: "v1", Parent: "g1", Description: "in 1"})
		sendType(s, setup, client.Variable{ID: "v2", Parent: "g1", Description: "in 2"})
		sendType(s, setup, client.Variable{ID: "x1", Parent: root, Description: "outside"})
		sendType(s, setup, client.Variable{ID: "tA", Parent: root, Description: "target outside"})
		sendType(s, setup, client.Variable{ID: "tB", Parent: "g1", Description: "target inside"})
		sendType(s, setup, rule)
	})
	for i := 0; i < nConds; i++ {
		c := client.Condition{ID: fmt.Sprintf("c%d", i+1), Parent: "R", Description: "cond", ConditionType: data.PointValuePointValue}
		switch wl.Draw(4) {
		case 0:
			c.NodeID = ""
		case 1:
			c.NodeID = "v1"
		case 2:
			c.NodeID = "v2"
		case 3:
			c.NodeID = "x1" // never matches: outside the rule's scope
		}
		c.PointType = []string{"", "value", "temp"}[wl.Draw(3)]
		c.PointKey = []string{"", "", "a", "b"}[wl.Draw(4)]
		switch wl.Draw(3) {
		case 0:
			c.ValueType = data.PointValueNumber
			c.Operator = []string{">", "<", "=", "!="}[wl.Draw(4)]
			c.Value = valPool[wl.Draw(len(valPool))]
		case 1:
			c.ValueType = data.PointValueOnOff
			c.Operator = "="
			c.Value = float64(wl.Draw(2))
		case 2:
			c.ValueType = data.PointValueText
			c.Operator = []string{"=", "!=", "contains"}[wl.Draw(3)]
			c.ValueText = textPool[wl.Draw(len(textPool))]
		}
		model.conds = append(model.conds, c)
		model.condActive = append(model.condActive, false)
		cc := c
		s.Call(func() { sendType(s, setup, cc) })
	}
	// One run in four adds a schedule condition.  The rule evaluates it on its own 10 s ticker, which the evaluator cannot
	// see, so the run is arranged so that no order matters: the first tick happens before the workload starts, no window
	// boundary lies within the workload's time span (checked at the end), and the clock is moved across the next one or
	// two boundaries after the workload, with nothing in flight.  A tick also presents a trigger point (no type, no key,
	// the rule's id) to the point conditions, so in these runs every point condition filters on a type.
	var sched *schedSpec
	schedIdx, editPhase := 0, false
	if wl.Chance(1, 4) {
		// no feedback in these runs: a rule that writes into its own scope may oscillate for ever once a tick has set it
		// off, and the clock moves below have no step cap
		feedback = false
		// the process's time zone must not matter (the rule stamps its triggers with time.Now())
		offs := []int{0, 3600, -5 * 3600, 9 * 3600, -12 * 3600, 14 * 3600, 5*3600 + 1800}
		oldLocal := time.Local
		time.Local = time.FixedZone("SIM", offs[wl.Draw(len(offs))])
		s.cleanup = append(s.cleanup, func() { time.Local = oldLocal })
		sp := schedSpec{}
		pickMin := func() int {
			if wl.Chance(1, 5) {
				return 0
			}
			return 26 + wl.Draw(155) // boundaries within three hours of the run's start: crossing one costs few ticks
		}
		sp.StartMin = pickMin()
		switch wl.Draw(3) {
		case 0:
			sp.EndMin = sp.StartMin // a full day from the start time
		default:
			sp.EndMin = pickMin()
		}
		if wl.Chance(1, 2) {
			sp.AnyWeekday = true
			for i := 0; i < 7; i++ {
				sp.Weekdays[i] = wl.Chance(1, 2)
			}
			sp.Weekdays[[]int{5, 6, 0}[wl.Draw(3)]] = true // Friday, Saturday or Sunday: the days the run touches
		}
		if wl.Chance(1, 4) {
			sp.Dates = []string{[]string{"1999-12-31", "2000-01-01", "2000-01-02"}[wl.Draw(3)]}
		}
		sched = &sp
		c := client.Condition{ID: "s1", Parent: "R", Description: "sched", ConditionType: data.PointValueSchedule,
			Start: fmtHM(sp.StartMin, wl.Chance(1, 2)), End: fmtHM(sp.EndMin, wl.Chance(1, 2)), Dates: sp.Dates}
		if sp.AnyWeekday {
			c.Weekdays = sp.Weekdays[:]
		}
		for i := range model.conds {
			if model.conds[i].PointType == "" {
				model.conds[i].PointType = "value"
				cc := model.conds[i]
				s.Call(func() { sendType(s, setup, cc) })
			}
		}
		schedIdx = len(model.conds)
		model.sched = map[int]schedSpec{schedIdx: sp}
		model.conds = append(model.conds, c)
		model.condActive = append(model.condActive, false)
		s.Call(func() { sendType(s, setup, c) })
		// every "active" point the rule writes to the schedule condition is right for its own time stamp
		tr.OnWrite = func(w *WriteRec) {
			if w.NodeID != "s1" || w.Edge || w.From != "mgr" {
				return
			}
			for _, p := range w.Pts {
				sp := model.sched[schedIdx]
				if p.Type == data.PointTypeActive && !editPhase {
					// the rule has just evaluated its schedule (this point is the first thing it publishes when the
					// condition flips): the model follows at this position of the stream, before whatever the flip causes
					model.evalSched(p.Time)
				}
				if p.Type == data.PointTypeActive && (p.Value != 0) != sp.active(p.Time) {
					s.Fail("C13", "schedule-condition-active", "the rule marked its schedule condition active=%v at %s (%s), the trigger time falls %s the window (start=%s end=%s weekdays=%v dates=%v)",
						p.Value != 0, p.Time.UTC().Format(time.RFC3339Nano), p.Time.UTC().Weekday(), map[bool]string{true: "inside", false: "outside"}[sp.active(p.Time)], c.Start, c.End, c.Weekdays, c.Dates)
				}
			}
		}
	}
	mkAction := func(id string) client.Action {
		a := client.Action{ID: id, Parent: "R", Description: "act", Action: data.PointValueSetValue, NodeID: "tA",
			PointType: []string{"value", "out"}[wl.Draw(2)], ValueType: data.PointValueNumber, Value: valPool[wl.Draw(len(valPool))]}
		if feedback && wl.Chance(1, 2) {
			a.NodeID = "tB"
		}
		if wl.Chance(1, 4) {
			a.ValueType = data.PointValueText
			a.ValueText = textPool[wl.Draw(len(textPool))]
		}
		switch wl.Draw(8) { // a half-configured action (what the UI creates before the target is filled in): it reports an
		// error, writes nothing and is marked like the others; the rest of its list still runs
		case 0:
			a.NodeID = ""
		case 1:
			a.PointType = ""
		}
		return a
	}
	for i, n := 0, wl.Draw(3); i < n; i++ {
		a := mkAction(fmt.Sprintf("a%d", i+1))
		model.acts = append(model.acts, a)
		s.Call(func() { sendType(s, setup, a) })
	}
	for i, n := 0, wl.Draw(3); i < n; i++ {
		a := mkAction(fmt.Sprintf("i%d", i+1))
		model.inacts = append(model.inacts, a)
		ai := client.ActionInactive{ID: a.ID, Parent: a.Parent, Description: a.Description, Action: a.Action, NodeID: a.NodeID,
			PointType: a.PointType, ValueType: a.ValueType, Value: a.Value, ValueText: a.ValueText}
		s.Call(func() { sendType(s, setup, ai) })
	}
	if s.Failed() {
		return
	}
	s.BusObservers = append(s.BusObservers, h.observe)
	h.startManager()
	s.AdvanceIdle(2 * time.Second) // manager scan, rule client construction and subscription
	if s.Failed() {
		return
	}
	var schedStart time.Time
	if sched != nil {
		s.AdvanceIdle(12 * time.Second) // the first tick
		schedStart = time.Now()
		model.evalSched(schedStart)
		h.compare(true)
		if s.Failed() {
			return
		}
	}

	nW := wl.Range(1, 3)
	for w := 0; w < nW; w++ {
		nc, _ := nats.Connect(in.URL(), nats.Name(fmt.Sprintf("w%d", w)))
		s.cleanup = append(s.cleanup, nc.Close)
		s.NewActor(fmt.Sprintf("w%d", w), nc)
	}
	var sample []string
	clock := time.Date(1999, 12, 1, 0, 0, 0, 0, time.UTC).UnixNano()
	nOps := 0
	for wl.More(10) {
		src := sources[wl.Draw(len(sources))]
		n := 1 + wl.Biased(3)
		var pts data.Points
		for i := 0; i < n; i++ {
			clock += int64(1 + wl.Draw(100))
			p := data.Point{Type: typePool[wl.Draw(len(typePool))], Key: keyPool[wl.Draw(len(keyPool))], Time: time.Unix(0, clock),
				Value: valPool[wl.Draw(len(valPool))], Origin: "src"}
			if wl.Chance(1, 3) {
				p.Text = textPool[wl.Draw(len(textPool))]
			}
			pts = append(pts, p)
		}
		// one connection per source node keeps per-identity arrival in timestamp order
		a := s.Actors[int(src[1]-'0')%len(s.Actors)]
		if nOps < 10 {
			sample = append(sample, fmt.Sprintf("%s: points %s [%s]", a.Name, src, shortPts(pts)))
		}
		nOps++
		ack := wl.Chance(3, 4)
		a.Add(fmt.Sprintf("points %s [%s]", src, shortPts(pts)), func() {
			_ = client.SendNodePoints(a.Nc, src, append(data.Points(nil), pts...), ack)
		})
	}
	var cs []string
	for _, c := range model.conds {
		cs = append(cs, fmt.Sprintf("{%s node=%q type=%q key=%q %s %s %v/%q}", c.ID, c.NodeID, c.PointType, c.PointKey, c.ValueType, c.Operator, c.Value, c.ValueText))
	}
	s.SampleText = fmt.Sprintf("feedback=%v conds=%v actions=%d/%d batches=%d: %s", feedback, cs, len(model.acts), len(model.inacts), nOps, strings.Join(sample, " | "))
	if wl.Chance(1, 4) {
		s.DelayPM = wl.Range(1, 10)
	}
	s.OnQuiescent = append(s.OnQuiescent, func() {
		tr.CheckState(false)
		if !s.Failed() {
			h.compare(false)
		}
	})
	s.AfterStep = append(s.AfterStep, tr.Process)
	s.Run()
	if s.Failed() {
		return
	}
	if s.Step >= s.MaxSteps {
		return // feedback loop that never settles: inconclusive by construction (probe step-cap)
	}
	s.AdvanceIdle(2 * time.Second)
	tr.CheckState(true)
	if s.Failed() {
		return
	}
	h.compare(true)
	if s.Failed() {
		return
	}
	if sched != nil {
		if sched.active(time.Now().Add(15*time.Second)) != sched.active(schedStart) {
			s.Probe("schedule: a window boundary fell into the workload's time span (order ambiguous, not judged further)")
			h.stopManager()
			return
		}
		// move the clock across the next boundaries of the window, with nothing in flight
		for j := 0; j < 2 && !s.Failed(); j++ {
			now := time.Now()
			cur := sched.active(now)
			m0 := now.Truncate(time.Minute).Add(time.Minute)
			var tb time.Time
			for k := 0; k < 4*60; k++ {
				if t := m0.Add(time.Duration(k) * time.Minute); sched.active(t) != cur {
					tb = t
					break
				}
			}
			if tb.IsZero() {
				s.Probe("schedule: no boundary within 4 h")
				break
			}
			s.AdvanceIdle(tb.Sub(now) + 12*time.Second)
			model.evalSched(time.Now())
			tr.CheckState(true)
			if s.Failed() {
				return
			}
			h.compare(true)
			s.Probe("schedule: boundary crossed")
		}
		if s.Failed() {
			return
		}
		// the weekday filter of the running rule's schedule condition is edited (one batch, as the UI sends it), once or
		// twice, with nothing in flight: the rule has to judge the trigger time against the window as it is configured now
		nEdits := wl.Draw(3)
		for j := 0; j < nEdits && !s.Failed(); j++ {
			editPhase = true
			sp := model.sched[schedIdx]
			sp.AnyWeekday = true
			var pts data.Points
			for d := 0; d < 7; d++ {
				sp.Weekdays[d] = wl.Chance(1, 2)
				pts = append(pts, data.Point{Type: data.PointTypeWeekday, Key: fmt.Sprint(d), Value: data.BoolToFloat(sp.Weekdays[d]), Time: time.Now().Add(time.Duration(d)), Origin: "web"})
			}
			sp.AnyWeekday = false // no day ticked = no weekday filter
			for d := 0; d < 7; d++ {
				sp.AnyWeekday = sp.AnyWeekday || sp.Weekdays[d]
			}
			model.sched[schedIdx] = sp
			model.conds[schedIdx].Weekdays = sp.Weekdays[:]
			s.Call(func() {
				if err := client.SendNodePoints(setup, "s1", pts, true); err != nil {
					s.Fail("C13", "harness", "edit weekdays: %v", err)
				}
			})
			s.AdvanceIdle(12 * time.Second)
			model.configEdit(time.Now())
			editPhase = false
			tr.CheckState(true)
			if s.Failed() {
				return
			}
			h.compare(true)
			s.Probe("schedule: weekdays edited while the rule runs")
		}
		if s.Failed() {
			return
		}
	}
	h.stopManager()
}

func init() { register(&Engine{Prop: "C13", Run: runC13, MaxSteps: 4000}) }
