package sim

import (
	"fmt"
	"time"

	"github.com/nats-io/nats.go"
	"github.com/simpleiot/simpleiot/client"
	"github.com/simpleiot/simpleiot/data"
	"github.com/simpleiot/simpleiot/store"
)

// Instance is one simulated simpleiot instance: a bus server, the real store
// on its own SQLite file, and harness connections.
type Instance struct {
	s        *Sim
	Name     string
	Token    string
	File     string
	RootID   string
	StoreNc  *nats.Conn
	Store    *store.Store
	Obs      *nats.Conn // harness observer connection
	TopLevel []string   // ids of nodes the workload placed under the pseudo-parent "none" (included in Dump)
	running  bool
	runDone  chan error
	Starts   int
}

func (in *Instance) URL() string       { return "nats://" + in.Name + ".local:4222" }
func (in *Instance) PublicURL() string { return "nats://" + in.Name + ":4222" }

// NewInstance creates the bus server and starts the store.
func (s *Sim) NewInstance(name, token string) *Instance {
	in := &Instance{s: s, Name: name, Token: token, File: fmt.Sprintf("%s/%s.sqlite", s.Dir, name), RootID: name + "-root"}
	s.W.AddServer(name, token, name+".local")
	s.Insts = append(s.Insts, in)
	in.Start()
	var err error
	in.Obs, err = nats.Connect(in.URL(), nats.Name(name+"-obs"), nats.Token(token))
	if err != nil {
		panic(err)
	}
	s.cleanup = append(s.cleanup, func() { in.Obs.Close() })
	return in
}

// Start opens the store file and runs the store (server.Server.Run does the
// same: NewStore, then Run on its own goroutine).
func (in *Instance) Start() {
	if in.running {
		return
	}
	s := in.s
	var err error
	in.Starts++
	in.StoreNc, err = nats.Connect(in.URL(), nats.Name(fmt.Sprintf("%s-store%d", in.Name, in.Starts)), nats.Token(in.Token))
	if err != nil {
		panic(err)
	}
	in.Store, err = store.NewStore(store.Params{File: in.File, AuthToken: in.Token, Server: in.URL(),
		Nc: in.StoreNc, ID: in.RootID})
	if err != nil {
		s.Fail(s.Prop, "store-open", "store.NewStore(%s) failed: %v", in.File, err)
		return
	}
	in.runDone = make(chan error, 1)
	st := in.Store
	done := in.runDone
	go func() { done <- st.Run() }()
	in.running = true
	s.Settle() // subscriptions reach the server
}

// Stop stops the store cleanly (Stop, Run returns after closing the file).
func (in *Instance) Stop() {
	if !in.running {
		return
	}
	s := in.s
	// let whatever handler is in progress finish first: the harness must not create a shutdown race of its own
	s.quiesce()
	for _, f := range s.AfterStep {
		f()
	}
	in.Store.Stop(nil)
	in.running = false
	// Run must return; give it simulated time, it has none to wait for
	deadline := time.Now().Add(30 * time.Second)
	for {
		s.quiesce()
		select {
		case <-in.runDone:
			in.StoreNc.Close()
			s.Settle()
			return
		default:
		}
		if !s.StepOnce(false) {
			if time.Now().After(deadline) {
				s.Fail(s.Prop, "store-stop", "Store.Run did not return within 30 simulated seconds of Stop")
				return
			}
			s.sleepOrWake(time.Second)
		}
	}
}

// Teardown stops everything at the end of a run.
func (s *Sim) Teardown() {
	for _, in := range s.Insts {
		in.Stop()
	}
}

// ---- harness reads through the public API (driven FIFO) -------------------

// GetNodes issues client.GetNodes on the observer connection.
func (in *Instance) GetNodes(parent, id, typ string, includeDel bool) (nodes []data.NodeEdge, err error) {
	in.s.Call(func() { nodes, err = client.GetNodes(in.Obs, parent, id, typ, includeDel) })
	return
}

// Dump walks the tree from the root (deleted edges included) and returns every
// edge once, keyed parent/id, in discovery order.
func (in *Instance) Dump() (edges []data.NodeEdge, err error) {
	in.s.Call(func() {
		roots, e := client.GetNodes(in.Obs, "root", "all", "", true)
		if e != nil {
			err = fmt.Errorf("get root: %w", e)
			return
		}
		seen := map[string]bool{}
		var walk func(n data.NodeEdge, depth int)
		walk = func(n data.NodeEdge, depth int) {
			k := n.Parent + "/" + n.ID
			if seen[k] {
				return
			}
			seen[k] = true
			edges = append(edges, n)
			if depth > 64 {
				err = fmt.Errorf("tree deeper than 64 at %s (cycle?)", k)
				return
			}
			ch, e := client.GetNodes(in.Obs, n.ID, "all", "", true)
			if e != nil {
				err = fmt.Errorf("get children of %s: %w", n.ID, e)
				return
			}
			for _, c := range ch {
				walk(c, depth+1)
				if err != nil {
					return
				}
			}
		}
		for _, r := range roots {
			walk(r, 0)
		}
		// placements without a parent ("none") cannot be listed; the workload names the nodes it gave one
		for _, id := range in.TopLevel {
			es, e := client.GetNodes(in.Obs, "all", id, "", true)
			if e != nil {
				err = fmt.Errorf("get placements of %s: %w", id, e)
				return
			}
			for _, n := range es {
				if n.Parent == "none" {
					walk(n, 0)
				}
			}
		}
	})
	return
}
