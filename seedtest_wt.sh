#!/bin/bash
# seedtest_wt.sh <patch.diff> <prop> [<prop> ...] : like seedtest.sh, but the change is applied to a scratch git
# worktree of /repo (removed afterwards) and the checks are pointed at it with VERIF_REPO, so that /repo itself stays
# untouched and other checks can run against it at the same time.  Evidence goes to a scratch directory.
patch=$(readlink -f "$1"); shift
wt=$(mktemp -d /tmp/seedwt.XXXXXX)/repo
git -C /repo worktree add -q --detach "$wt" HEAD || exit 2
trap 'git -C /repo worktree remove --force "$wt"; rmdir "$(dirname "$wt")" 2>/dev/null; git -C /repo worktree prune' EXIT
git -C "$wt" apply "$patch" || { echo "patch does not apply"; exit 2; }
for p in "$@"; do
  echo "=== $p"
  (cd /verif && VERIF_REPO="$wt" VERIF_EVIDENCE_DIR=/dev/shm/seedtest-evidence VERIF_BUDGET_S=${BUDGET:-25} ./check $p quick 2>&1 | grep -E "^VIOLATION|^--- |quick:|exit 2|KNOWN|BUILD" | cut -c1-420 | head -8)
done
