package sim

import (
	"fmt"
	"math"
	"reflect"
	"sort"
	"strings"
	"sync"
	"time"

	"github.com/nats-io/nats.go"
	"github.com/simpleiot/simpleiot/client"
	"github.com/simpleiot/simpleiot/data"
)

// C07 / C08 — the real client.Manager[TestNode] with an instrumented client.
//
// C07: exactly one running client per live configured node (per placement),
// never two at once for a placement, none for deleted ones, restart on child
// changes, Manager.Stop stops everything.
// C08: a client's Points/EdgePoints callbacks are exactly, and in order, what
// the bus carried on its subtree subject while it was subscribed and that
// passes the documented echo filter; the folded configuration equals the store.

type TestKid struct {
	ID          string  `node:"id"`
	Parent      string  `node:"parent"`
	Description string  `point:"description"`
	Value       float64 `point:"value"`
}

type TestNode struct {
	ID          string    `node:"id"`
	Parent      string    `node:"parent"`
	Description string    `point:"description"`
	Value       float64   `point:"value"`
	Tags        []string  `point:"tag"`
	Role        string    `edgepoint:"role"`
	Kids        []TestKid `child:"testKid"`
}

const typTestNode = "testNode"
const typTestKid = "testKid"
const typHolder = "holder" // configured parent type

type cbRec struct {
	Seq    int
	Edge   bool
	Node   string
	Parent string
	Pts    data.Points
}

// tcInst is the record of one constructed client instance.
type tcInst struct {
	N          int
	Key        string // parent-id placement
	ID, Parent string
	Cfg        TestNode // as constructed
	Cur        TestNode // with callbacks folded in
	KidIDs     []string
	ConsSeq    int
	RunEnter   int
	RunExit    int
	StopSeq    int
	Stops      int
	CBs        []cbRec
	Sub        *nats.Subscription
	SubRouted  int // route sequence (tracker's counter) at which the server registered the subscription
	UnsubAt    int
	Expect     []cbRec // what the bus routed to the subscription subject while registered and that passes the filter
	stop       chan struct{}
	stopDelay  time.Duration
	FoldErr    string
	selfExit   bool // this client's Run returns by itself shortly after start (a client that fails)
	startDirty bool // a write to the subtree was accepted between the state fetch and the subscription taking effect
	startSelf  bool // ... and it was a batch "authored by the client itself" (empty origin / its id): nobody can have authored as a client that is not running yet
}

type mgrHarness struct {
	s   *Sim
	in  *Instance
	tr  *Tracker
	mu  sync.Mutex
	nc  *nats.Conn
	m   *client.Manager[TestNode]
	ins []*tcInst
	// pending: instance constructed, its subscription not yet seen
	pendingSub *tcInst
	routeSeq   int
	runDone    chan error
	// liveness history of placements: key -> list of (routeSeq, live)
	accepted     []accWrite
	lastNodesReq map[string]int // parent -> routeSeq of the manager's last nodes.<parent>.all request dispatched to the store
	liveAt       map[string][]liveMark
}

type accWrite struct {
	seq  int
	node string
	edge bool
	pts  data.Points
}

type liveMark struct {
	seq  int
	live bool
}

type testClient struct {
	h   *mgrHarness
	rec *tcInst
}

func (c *testClient) Run() error {
	h := c.h
	h.mu.Lock()
	c.rec.RunEnter = h.s.StepSeq()
	h.mu.Unlock()
	if c.rec.selfExit {
		time.Sleep(500*time.Millisecond + time.Duration(c.rec.N)*time.Millisecond) // never two harness timers at one instant
		h.mu.Lock()
		c.rec.RunExit = max(h.s.StepSeq(), 1)
		h.mu.Unlock()
		return fmt.Errorf("client failed")
	}
	<-c.rec.stop
	if c.rec.stopDelay > 0 {
		time.Sleep(c.rec.stopDelay)
	}
	h.mu.Lock()
	c.rec.RunExit = h.s.StepSeq()
	if c.rec.RunExit == 0 {
		c.rec.RunExit = 1
	}
	h.mu.Unlock()
	return nil
}

func (c *testClient) Stop(_ error) {
	h := c.h
	h.mu.Lock()
	c.rec.Stops++
	first := c.rec.Stops == 1
	c.rec.StopSeq = h.s.StepSeq()
	h.mu.Unlock()
	if first {
		close(c.rec.stop)
	}
}

func (c *testClient) Points(id string, pts []data.Point) {
	h := c.h
	h.mu.Lock()
	defer h.mu.Unlock()
	c.rec.CBs = append(c.rec.CBs, cbRec{Seq: h.s.StepSeq(), Node: id, Pts: append(data.Points(nil), pts...)})
	if err := data.MergePoints(id, pts, &c.rec.Cur); err != nil && c.rec.FoldErr == "" {
		// points of nodes that are not part of the typed config (other child types) cannot be folded: not an error here
		if !strings.Contains(err.Error(), "no matching struct") {
			c.rec.FoldErr = err.Error()
		}
	}
}

func (c *testClient) EdgePoints(id, parent string, pts []data.Point) {
	h := c.h
	h.mu.Lock()
	defer h.mu.Unlock()
	c.rec.CBs = append(c.rec.CBs, cbRec{Seq: h.s.StepSeq(), Edge: true, Node: id, Parent: parent, Pts: append(data.Points(nil), pts...)})
	if err := data.MergeEdgePoints(id, parent, pts, &c.rec.Cur); err != nil && c.rec.FoldErr == "" {
		if !strings.Contains(err.Error(), "no matching struct") {
			c.rec.FoldErr = err.Error()
		}
	}
}

func (h *mgrHarness) construct(nc *nats.Conn, cfg TestNode) client.Client {
	h.mu.Lock()
	defer h.mu.Unlock()
	rec := &tcInst{N: len(h.ins) + 1, Key: cfg.Parent + "-" + cfg.ID, ID: cfg.ID, Parent: cfg.Parent, Cfg: cfg, ConsSeq: h.s.StepSeq(),
		stop: make(chan struct{})}
	rec.Cur = cfg
	rec.Cur.Kids = append([]TestKid(nil), cfg.Kids...)
	for _, k := range cfg.Kids {
		rec.KidIDs = append(rec.KidIDs, k.ID)
	}
	sort.Strings(rec.KidIDs)
	rec.stopDelay = time.Duration(mix(h.s.Seed, uint64(rec.N))%5)*time.Second + time.Duration(rec.N)*time.Millisecond
	if rec.stopDelay < time.Second {
		rec.stopDelay = 0
	}
	// a client whose Run gives up by itself (fenced off while finding F-C07-client-exit-not-restarted is open); only the
	// first instance of a placement fails, a restarted one works
	first := true
	for _, o := range h.ins {
		if o.Key == rec.Key {
			first = false
		}
	}
	rec.selfExit = first && fenceOpen("client-self-exit") && mix(h.s.Seed, uint64(rec.N)+5000)%5 == 0
	h.ins = append(h.ins, rec)
	h.pendingSub = rec
	if q0, ok := h.lastNodesReq[cfg.Parent]; ok {
		for _, aw := range h.accepted {
			if aw.seq > q0 && (aw.node == rec.ID || h.tr.Ref.IsAncestorAny(rec.ID, aw.node)) {
				rec.startDirty = true
				if !aw.edge && !passesFilter(rec.ID, aw.node, aw.pts) {
					rec.startSelf = true
				}
			}
		}
	}
	// safety: never two running clients for one placement
	for _, o := range h.ins {
		if o != rec && o.Key == rec.Key && o.RunExit == 0 {
			h.s.failLocked("C07", "two-at-once", "client #%d for placement %s constructed at step %d while client #%d for the same placement is still running (constructed step %d, stop requested step %d)",
				rec.N, rec.Key, h.s.StepSeq(), o.N, o.ConsSeq, o.StopSeq)
		}
	}
	// safety: the placement was live when the store answered the scan's listing of its parent
	q, ok := h.lastNodesReq[cfg.Parent]
	if !ok {
		h.s.failLocked("C07", "unlisted", "client #%d constructed for %s although the manager never listed the children of %s", rec.N, rec.Key, cfg.Parent)
	} else if !h.wasLiveAt(rec.Parent, rec.ID, q) {
		h.s.failLocked("C07", "not-live", "client #%d constructed for placement %s which was not live when the manager last listed %s", rec.N, rec.Key, cfg.Parent)
	}
	return &testClient{h: h, rec: rec}
}

func (h *mgrHarness) wasLiveAt(parent, id string, seq int) bool {
	marks := h.liveAt[parent+"-"+id]
	live := false
	for _, m := range marks {
		if m.seq <= seq {
			live = m.live
		}
	}
	return live
}

func (s *Sim) failLocked(prop, clause, format string, a ...any) {
	// called from goroutines of the code under test; Fail itself only touches Sim fields
	s.Fail(prop, clause, format, a...)
}

// observe runs under the world lock.
func (h *mgrHarness) observe(ev nats.BusEvent) {
	h.mu.Lock()
	h.routeSeq++ // counts every observed bus event, so that it orders dispatches and routes alike
	h.mu.Unlock()
	switch ev.Kind {
	case "subscribe":
		if ev.Conn != h.nc || !strings.HasPrefix(ev.Op.Subject, "up.") || ev.Op.Subject == "up.root.>" {
			return
		}
		h.mu.Lock()
		if h.pendingSub != nil {
			h.pendingSub.Sub = ev.Sub
			h.pendingSub = nil
		}
		h.mu.Unlock()
	case "route":
		h.mu.Lock()
		defer h.mu.Unlock()
		switch {
		case ev.Op.IsSub():
			for _, in := range h.ins {
				if in.Sub == ev.Op.Sub && in.SubRouted == 0 {
					in.SubRouted = h.routeSeq
				}
			}
		case ev.Op.IsUnsub():
			for _, in := range h.ins {
				if in.Sub == ev.Op.Sub && in.UnsubAt == 0 {
					in.UnsubAt = h.routeSeq
				}
			}
		case ev.Op.IsPub() && ev.Conn == h.in.StoreNc && strings.HasPrefix(ev.Op.Subject, "up."):
			ch := strings.Split(ev.Op.Subject, ".")
			if len(ch) != 3 && len(ch) != 4 {
				return
			}
			pts, err := data.PbDecodePoints(ev.Op.Data)
			if err != nil {
				return
			}
			for _, in := range h.ins {
				if in.ID != ch[1] || in.SubRouted == 0 || in.UnsubAt != 0 {
					continue
				}
				if len(ch) == 3 {
					if passesFilter(in.ID, ch[2], pts) {
						in.Expect = append(in.Expect, cbRec{Seq: h.routeSeq, Node: ch[2], Pts: pts})
					}
				} else if !isRestartBatch(pts) {
					// tombstone 0/1 and nodeType edge batches stop the client instead of being delivered
					in.Expect = append(in.Expect, cbRec{Seq: h.routeSeq, Edge: true, Node: ch[2], Parent: ch[3], Pts: pts})
				}
			}
		}
	case "dispatch":
		if ev.Sub.ConnOf() == h.nc && strings.HasPrefix(ev.Msg.Subject, "up.") {
			// By the documented convention a batch with empty origin on the client's own node, or with the client's
			// id as origin, was authored by the client itself, which therefore already knows it: the harness issued
			// it on the client's behalf and folds it for the client.  It is folded where the manager drops it, in
			// the order of the client's subscription, so that it keeps its place among the callbacks (folding it
			// when the store accepted it would put it ahead of older foreign points still on their way).
			ch := strings.Split(ev.Msg.Subject, ".")
			if len(ch) != 3 {
				return
			}
			pts, err := data.PbDecodePoints(ev.Msg.Data)
			if err != nil {
				return
			}
			h.mu.Lock()
			for _, in := range h.ins {
				if in.Sub == ev.Sub && in.RunExit == 0 && !passesFilter(in.ID, ch[2], pts) {
					_ = data.MergePoints(ch[2], pts, &in.Cur)
				}
			}
			h.mu.Unlock()
			return
		}
		if ev.Sub.ConnOf() != h.in.StoreNc {
			return
		}
		if ev.Msg.From == h.nc && strings.HasPrefix(ev.Msg.Subject, "nodes.") {
			ch := strings.Split(ev.Msg.Subject, ".")
			if len(ch) == 3 && ch[2] == "all" {
				typ := ""
				if pts, err := data.PbDecodePoints(ev.Msg.Data); err == nil {
					for _, p := range pts {
						if p.Type == data.PointTypeNodeType {
							typ = p.Text
						}
					}
				}
				if typ == typTestNode {
					h.mu.Lock()
					h.lastNodesReq[ch[1]] = h.routeSeq
					h.mu.Unlock()
				}
			}
		}
	}
}

// passesFilter is the documented echo filter: a batch is withheld if it was
// authored by the client itself (empty origin on its own node, or origin equal
// to its id).
func passesFilter(clientID, nodeID string, pts data.Points) bool {
	for _, p := range pts {
		if p.Origin == "" && nodeID == clientID {
			return false
		}
		if p.Origin == clientID {
			return false
		}
	}
	return true
}

// noteLiveness records the model's view of every placement after a write.
func (h *mgrHarness) noteLiveness() {
	h.mu.Lock()
	defer h.mu.Unlock()
	for k, e := range h.tr.Ref.Edges {
		key := k[0] + "-" + k[1]
		live := e.Tombstone() != 1
		marks := h.liveAt[key]
		if len(marks) == 0 || marks[len(marks)-1].live != live {
			h.liveAt[key] = append(marks, liveMark{h.routeSeq, live})
		}
	}
}

// expectedPlacements computes, from the reference model, the placements that
// must have a running client: nodes of the type under the root, a group or a
// configured parent type, reachable over live edges.
func (h *mgrHarness) expectedPlacements() map[string]bool {
	out := map[string]bool{}
	ref := h.tr.Ref
	seen := map[string]bool{}
	var walk func(id string, d int)
	walk = func(id string, d int) {
		if seen[id] || d > 50 {
			return
		}
		seen[id] = true
		for _, e := range ref.Children(id) {
			if e.Tombstone() == 1 {
				continue
			}
			if e.Type == typTestNode {
				out[e.Up+"-"+e.Down] = true
			}
			if e.Type == data.NodeTypeGroup || e.Type == typHolder {
				walk(e.Down, d+1)
			}
		}
	}
	walk(ref.RootID, 0)
	return out
}

func (h *mgrHarness) liveKids(id string) []string {
	var out []string
	for _, e := range h.tr.Ref.Children(id) {
		if e.Tombstone() != 1 && e.Type == typTestKid {
			out = append(out, e.Down)
		}
	}
	sort.Strings(out)
	return out
}

// checkSafety runs after every scheduler step.
func (h *mgrHarness) checkSafety() {
	h.mu.Lock()
	defer h.mu.Unlock()
	for _, in := range h.ins {
		if in.FoldErr != "" {
			h.s.Fail("C08", "fold-error", "client #%d (%s) could not fold delivered points: %s", in.N, in.Key, in.FoldErr)
		}
		// received callbacks must be a prefix of what the bus carried for it, in order
		n := len(in.CBs)
		if n > len(in.Expect) {
			cb := in.CBs[len(in.Expect)]
			h.s.Fail("C08", "unexpected-callback", "client #%d (%s) was called with %s which the bus did not carry for it or which the echo filter must withhold; expected so far %d callbacks, got %d",
				in.N, in.Key, fmtCB(cb), len(in.Expect), n)
			return
		}
		for i := 0; i < n; i++ {
			if !sameCB(in.CBs[i], in.Expect[i]) {
				h.s.Fail("C08", "order", "client #%d (%s): callback %d is %s, the bus carried %s at that position", in.N, in.Key, i, fmtCB(in.CBs[i]), fmtCB(in.Expect[i]))
				return
			}
		}
	}
}

func sameCB(a, b cbRec) bool {
	return a.Edge == b.Edge && a.Node == b.Node && a.Parent == b.Parent && sameBatch(b.Pts, a.Pts)
}

func fmtCB(c cbRec) string {
	if c.Edge {
		return fmt.Sprintf("EdgePoints(%s,%s,[%s])", c.Node, c.Parent, shortPts(c.Pts))
	}
	return fmt.Sprintf("Points(%s,[%s] origin=%q)", c.Node, shortPts(c.Pts), originOf(c.Pts))
}

func originOf(p data.Points) string {
	if len(p) == 0 {
		return ""
	}
	return p[0].Origin
}

func isRestartBatch(pts data.Points) bool {
	for _, p := range pts {
		if p.Type == data.PointTypeTombstone && (p.Value == 0 || p.Value == 1) {
			return true
		}
		if p.Type == data.PointTypeNodeType {
			return true
		}
	}
	return false
}

// checkQuiescent: the system has been left alone for minutes of simulated time.
func (h *mgrHarness) checkQuiescent(prop string) {
	s := h.s
	h.checkSafety()
	if s.Failed() {
		return
	}
	h.mu.Lock()
	defer h.mu.Unlock()
	want := h.expectedPlacements()
	running := map[string]*tcInst{}
	for _, in := range h.ins {
		if in.RunEnter != 0 && in.RunExit == 0 && in.Stops == 0 {
			if o := running[in.Key]; o != nil {
				s.Fail("C07", "two-at-once", "clients #%d and #%d both run for placement %s at quiescence", o.N, in.N, in.Key)
				return
			}
			running[in.Key] = in
		}
	}
	for k := range want {
		if running[k] == nil {
			for _, in := range h.ins {
				if in.Key == k && in.selfExit && in.Stops == 0 {
					s.Fail("C07", "client-exited-not-restarted", "client #%d for live placement %s returned from Run by itself and was never replaced: no client runs for it after 3 quiet simulated minutes", in.N, k)
					return
				}
			}
			s.Fail("C07", "missing-client", "no client is running for live placement %s after 3 quiet simulated minutes; running: %v", k, keysOfInst(running))
			return
		}
	}
	for k, in := range running {
		if !want[k] {
			s.Fail("C07", "stale-client", "client #%d is still running for placement %s, which is deleted or no longer reachable from the root, after 3 quiet simulated minutes", in.N, k)
			return
		}
		// constructed from the node's current children
		cur := h.liveKids(in.ID)
		if !reflect.DeepEqual(nilIfEmpty(in.KidIDs), nilIfEmpty(cur)) {
			clause := "children"
			if in.startDirty {
				clause = "children-start-window"
			}
			s.Fail("C07", clause, "client #%d for %s was constructed with children %v but the node now has %v and the client was not restarted",
				in.N, k, in.KidIDs, cur)
			return
		}
		// every message carried for it has been delivered (nothing stuck)
		if len(in.CBs) != len(expectDelivered(in)) {
			s.Fail("C08", "undelivered", "client #%d (%s) received %d callbacks but the bus carried %d deliverable messages for it", in.N, k, len(in.CBs), len(expectDelivered(in)))
			return
		}
	}
	s.Probe(fmt.Sprintf("quiescent-clients=%d", min(len(running), 4)))
}

func expectDelivered(in *tcInst) []cbRec { return in.Expect }

func nilIfEmpty(s []string) []string {
	if len(s) == 0 {
		return nil
	}
	return s
}

func keysOfInst(m map[string]*tcInst) []string {
	var o []string
	for k := range m {
		o = append(o, k)
	}
	sort.Strings(o)
	return o
}

// checkFolded (C08): the folded configuration of every running client equals
// what the store holds for its node and children.
func (h *mgrHarness) checkFolded() {
	s := h.s
	h.mu.Lock()
	var run []*tcInst
	for _, in := range h.ins {
		if in.RunEnter != 0 && in.RunExit == 0 && in.Stops == 0 {
			run = append(run, in)
		}
	}
	h.mu.Unlock()
	for _, in := range run {
		nodes, err := h.in.GetNodes(in.Parent, in.ID, "", false)
		if err != nil || len(nodes) != 1 {
			continue // not live any more; C07's business
		}
		kids, err := h.in.GetNodes(in.ID, "all", "", false)
		if err != nil {
			continue
		}
		nec := data.NodeEdgeChildren{NodeEdge: nodes[0]}
		for _, k := range kids {
			nec.Children = append(nec.Children, data.NodeEdgeChildren{NodeEdge: k})
		}
		var want TestNode
		if err := data.Decode(nec, &want); err != nil {
			continue
		}
		h.mu.Lock()
		got := in.Cur
		dirty, self := in.startDirty, in.startSelf
		h.mu.Unlock()
		sortKids(&want)
		sortKids(&got)
		if !reflect.DeepEqual(want, got) {
			if self {
				// the property's premise does not hold for this instance: a batch marked as authored by the client
				// was accepted while the client was still being started (the harness writes "as the client" without
				// knowing whether one runs); the manager withholds it and the client cannot know it
				s.Probe("not compared: a batch authored 'by the client' arrived while it was being started")
				continue
			}
			clause := "folded-state"
			if dirty {
				clause = "folded-state-start-window"
			}
			s.Fail("C08", clause, "client #%d (%s) holds %s after folding %d callbacks into the configuration it was started with, the store holds %s",
				in.N, in.Key, showTestNode(got), len(in.CBs), showTestNode(want))
			return
		}
		s.Probe("folded-state-compared")
	}
}

// showTestNode renders a configuration for messages (long texts shortened).
func showTestNode(t TestNode) string {
	if len(t.Description) > 64 {
		t.Description = fmt.Sprintf("%s…(%d bytes)", t.Description[:24], len(t.Description))
	}
	return fmt.Sprintf("%+v", t)
}

func sortKids(t *TestNode) {
	sort.Slice(t.Kids, func(i, j int) bool { return t.Kids[i].ID < t.Kids[j].ID })
	if len(t.Kids) == 0 {
		t.Kids = nil
	}
	// documented limitation of incremental merging (data/decode.go): entries deleted across several calls are not always
	// trimmed, so trailing zero entries may remain on the client's side; they are not compared
	for len(t.Tags) > 0 && t.Tags[len(t.Tags)-1] == "" {
		t.Tags = t.Tags[:len(t.Tags)-1]
	}
	if len(t.Tags) == 0 {
		t.Tags = nil
	}
}

// Bounded liveness of Manager.Stop: the manager's own guards (5 s per client state, 5 s for the whole shutdown, up to
// 1 s of draining per client subscription, one after the other) add up with the number of clients; the bound is far
// above any of them and is not meant to mirror them.
var stopBound = 60 * time.Second

type mgrCfg struct {
	Writers   int
	DelayPM   int
	Stop      bool
	EarlyStop bool
}

func runMgr(prop string) func(s *Sim) {
	return func(s *Sim) {
		wl := s.WL
		cfg := mgrCfg{Writers: wl.Range(1, 3), Stop: true, EarlyStop: wl.Chance(1, 4)}
		if wl.Chance(1, 4) {
			cfg.DelayPM = wl.Range(1, 15)
		} else {
			wl.Raw()
		}
		s.DelayPM = cfg.DelayPM
		in := s.NewInstance("a", "")
		if s.Failed() {
			return
		}
		tr := in.Track()
		if s.Failed() {
			return
		}
		h := &mgrHarness{s: s, in: in, tr: tr, lastNodesReq: map[string]int{}, liveAt: map[string][]liveMark{}}
		var err error
		h.nc, err = nats.Connect(in.URL(), nats.Name("mgr"))
		if err != nil {
			s.Fail(prop, "harness", "connect: %v", err)
			return
		}
		s.cleanup = append(s.cleanup, h.nc.Close)
		s.BusObservers = append(s.BusObservers, h.observe)
		tr.OnWrite = func(w *WriteRec) {
			h.noteLiveness()
			// start-window bookkeeping for the open finding on the manager's fetch-then-subscribe race
			if w.Refused == "" {
				h.mu.Lock()
				h.accepted = append(h.accepted, accWrite{h.routeSeq, w.NodeID, w.Edge, w.Pts})
				for _, ins := range h.ins {
					if ins.SubRouted == 0 && (w.NodeID == ins.ID || tr.Ref.IsAncestorAny(ins.ID, w.NodeID)) {
						ins.startDirty = true
						if !w.Edge && !passesFilter(ins.ID, w.NodeID, w.Pts) {
							ins.startSelf = true
						}
					}
				}
				h.mu.Unlock()
			}
		}
		h.noteLiveness()

		// pre-populate a little so that the manager finds something on its first scan (sometimes)
		root := in.RootID
		type place struct{ parent, id, typ string }
		var containers = []string{root}
		var testNodes []place
		var kids []place
		var others []string
		clock := time.Date(1999, 12, 1, 0, 0, 0, 0, time.UTC).UnixNano()
		nextT := func() time.Time { clock += int64(1 + wl.Draw(1000)); return time.Unix(0, clock) }

		for w := 0; w < cfg.Writers; w++ {
			nc, err := nats.Connect(in.URL(), nats.Name(fmt.Sprintf("w%d", w)))
			if err != nil {
				s.Fail(prop, "harness", "connect: %v", err)
				return
			}
			s.cleanup = append(s.cleanup, nc.Close)
			s.NewActor(fmt.Sprintf("w%d", w), nc)
		}
		var sample []string
		nOps := 0
		// all writes of node points to one node go through one connection (chosen by the node id), so that they
		// arrive in timestamp order per identity, as the property's quantifier requires; everything else is spread
		affinity := ""
		addOp := func(name string, fn func(a *Actor) error) {
			a := s.Actors[wl.Draw(len(s.Actors))]
			if affinity != "" {
				hsh := 0
				for _, c := range affinity {
					hsh = hsh*31 + int(c)
				}
				a = s.Actors[hsh%len(s.Actors)]
				affinity = ""
			}
			if nOps < 14 {
				sample = append(sample, a.Name+": "+name)
			}
			nOps++
			a.Add(name, func() { _ = fn(a) })
		}
		mkNode := func(id, parent, typ string, pts data.Points, origin string) func(a *Actor) error {
			return func(a *Actor) error {
				return client.SendNode(a.Nc, data.NodeEdge{ID: id, Parent: parent, Type: typ, Points: pts}, origin)
			}
		}
		curTags := map[string][]string{}
		maxTags := map[string]int{}
		originsFor := func(id string) []string { return []string{"", "web", id, "other", "w"} }
		nid := 0
		idles := 0
		bigLeft := 1
		for wl.More(12) {
			switch weighted(wl, []int{5, 3, 3, 2, 3, 2, 6, 2, 2, 2, 1, 4, 1}) {
			case 12: // more than a minute passes for this writer: what it does next happens after the manager's periodic rescans
				if idles >= 2 {
					continue
				}
				idles++
				d := time.Duration(61+wl.Draw(70)) * time.Second
				addOp(fmt.Sprintf("idle %s", d), func(a *Actor) error { time.Sleep(d); return nil })
			case 0: // new testNode under a container
				nid++
				id := fmt.Sprintf("t%d", nid)
				parent := containers[wl.Draw(len(containers))]
				testNodes = append(testNodes, place{parent, id, typTestNode})
				pts := data.Points{{Type: "description", Text: "d" + id, Time: nextT()}, {Type: "value", Value: float64(nid), Time: nextT()}}
				affinity = id
				addOp(fmt.Sprintf("create %s under %s", id, parent), mkNode(id, parent, typTestNode, pts, "web"))
			case 1: // new group / holder under a container
				nid++
				typ := data.NodeTypeGroup
				if wl.Chance(1, 3) {
					typ = typHolder
				}
				id := fmt.Sprintf("g%d", nid)
				parent := containers[wl.Draw(len(containers))]
				containers = append(containers, id)
				addOp(fmt.Sprintf("create %s %s under %s", typ, id, parent), mkNode(id, parent, typ, nil, "web"))
			case 2: // delete / undelete a testNode placement
				if len(testNodes) == 0 {
					continue
				}
				p := testNodes[wl.Draw(len(testNodes))]
				v := float64(wl.Draw(2))
				t := nextT()
				_ = t
				addOp(fmt.Sprintf("tombstone=%v %s/%s", v, p.parent, p.id), func(a *Actor) error {
					return client.SendEdgePoint(a.Nc, p.id, p.parent, data.Point{Type: data.PointTypeTombstone, Value: v, Origin: "web"}, true)
				})
			case 3: // delete / undelete a container (not the root)
				if len(containers) < 2 {
					continue
				}
				c := containers[1+wl.Draw(len(containers)-1)]
				v := float64(wl.Draw(2))
				addOp(fmt.Sprintf("tombstone=%v container %s", v, c), func(a *Actor) error {
					nodes, err := client.GetNodes(a.Nc, "all", c, "", true)
					if err != nil || len(nodes) == 0 {
						return err
					}
					return client.SendEdgePoint(a.Nc, c, nodes[0].Parent, data.Point{Type: data.PointTypeTombstone, Value: v, Origin: "web"}, true)
				})
			case 4: // add a kid below a testNode
				if len(testNodes) == 0 {
					continue
				}
				p := testNodes[wl.Draw(len(testNodes))]
				nid++
				id := fmt.Sprintf("k%d", nid)
				kids = append(kids, place{p.id, id, typTestKid})
				pts := data.Points{{Type: "description", Text: "d" + id, Time: nextT()}}
				affinity = id
				// children are created by other parties or by the client itself (origin = its node id), as real clients do
				korigin := []string{"web", "web", p.id, "other"}[wl.Draw(4)]
				addOp(fmt.Sprintf("add kid %s under %s origin=%q", id, p.id, korigin), mkNode(id, p.id, typTestKid, pts, korigin))
			case 5: // remove / restore a kid
				if len(kids) == 0 {
					continue
				}
				k := kids[wl.Draw(len(kids))]
				v := float64(wl.Draw(2))
				korigin := []string{"web", "web", k.parent, ""}[wl.Draw(4)]
				addOp(fmt.Sprintf("tombstone=%v kid %s/%s origin=%q", v, k.parent, k.id, korigin), func(a *Actor) error {
					return client.SendEdgePoint(a.Nc, k.id, k.parent, data.Point{Type: data.PointTypeTombstone, Value: v, Origin: korigin}, true)
				})
			case 6: // point update on a testNode or kid with some origin (one author per batch)
				var tgt string
				var owner string
				if len(kids) > 0 && wl.Chance(1, 3) {
					k := kids[wl.Draw(len(kids))]
					tgt, owner = k.id, k.parent
				} else if len(testNodes) > 0 {
					p := testNodes[wl.Draw(len(testNodes))]
					tgt, owner = p.id, p.id
				} else {
					continue
				}
				os := originsFor(owner)
				origin := os[wl.Draw(len(os))]
				n := 1 + wl.Draw(2)
				var pts data.Points
				for i := 0; i < n; i++ {
					p := data.Point{Time: nextT(), Origin: origin}
					if i > 0 && wl.Chance(1, 3) {
						// an author that stamps its whole batch with one "now": the same identity may then appear twice with
						// equal time stamps and different content (non-decreasing, as the quantifier allows); the later entry
						// is what the store keeps and what a client folding in order ends up with
						p.Time = pts[i-1].Time
					}
					if wl.Chance(1, 2) {
						p.Type, p.Text = "description", fmt.Sprintf("v%d.%d", nOps, i)
					} else {
						p.Type, p.Value = "value", float64(nOps)+0.5+float64(i)/8
					}
					if wl.Chance(1, 8) {
						p.Tombstone = 1
					}
					if wl.Chance(1, 16) {
						p.Value = math.NaN() // the store refuses the whole batch: nobody may be told of any of it
					}
					if p.Type == "description" && origin != "" && origin != owner && bigLeft > 0 && wl.Chance(1, 30) {
						// a message close to the bus's payload limit (1 MiB): it has to reach the client like any other
						bigLeft--
						p.Text = fmt.Sprintf("big%d.%d:", nOps, i) + strings.Repeat("x", 600*1024)
					}
					pts = append(pts, p)
				}
				affinity = tgt
				addOp(fmt.Sprintf("points %s origin=%q [%s]", tgt, origin, shortPts(pts)), func(a *Actor) error {
					return client.SendNodePoints(a.Nc, tgt, append(data.Points(nil), pts...), true)
				})
			case 7: // edge point (role) on a testNode placement
				if len(testNodes) == 0 {
					continue
				}
				p := testNodes[wl.Draw(len(testNodes))]
				role := fmt.Sprintf("r%d", nOps)
				t := nextT()
				affinity = p.id
				addOp(fmt.Sprintf("role %s/%s=%s", p.parent, p.id, role), func(a *Actor) error {
					return client.SendEdgePoint(a.Nc, p.id, p.parent, data.Point{Type: "role", Text: role, Time: t, Origin: "web"}, true)
				})
			case 8: // mirror a testNode under another container
				if len(testNodes) == 0 || len(containers) < 2 {
					continue
				}
				p := testNodes[wl.Draw(len(testNodes))]
				c := containers[wl.Draw(len(containers))]
				if c == p.parent {
					continue
				}
				testNodes = append(testNodes, place{c, p.id, typTestNode})
				addOp(fmt.Sprintf("mirror %s under %s", p.id, c), func(a *Actor) error { return client.MirrorNode(a.Nc, p.id, c, "web") })
			case 9: // unrelated node and writes to it
				nid++
				id := fmt.Sprintf("o%d", nid)
				others = append(others, id)
				parent := containers[wl.Draw(len(containers))]
				pts := data.Points{{Type: "value", Value: 1, Time: nextT()}}
				addOp(fmt.Sprintf("create other %s under %s", id, parent), mkNode(id, parent, "variable", pts, "web"))
			case 11: // slice-valued configuration: the writer changes an array of tags the way real clients do, by sending the
				// points data.DiffPoints yields for (its view of the array before, after): grow, overwrite, shrink, grow again
				if len(testNodes) == 0 {
					continue
				}
				p := testNodes[wl.Draw(len(testNodes))]
				sendTags := func(what string, pts data.Points) {
					for i := range pts {
						pts[i].Time = nextT()
						pts[i].Origin = "web"
					}
					affinity = p.id
					addOp(fmt.Sprintf("tags %s %s [%s]", p.id, what, shortPts(pts)), func(a *Actor) error {
						return client.SendNodePoints(a.Nc, p.id, append(data.Points(nil), pts...), true)
					})
				}
				if wl.Chance(1, 4) {
					// a history in one go: fill the array, drop the last entry twice (two batches), then grow again past the
					// dropped entries sending only the new last entry
					cur := curTags[p.id]
					for len(cur) < 3+wl.Draw(2) {
						cur = append(cur, fmt.Sprintf("f%d.%d", nOps, len(cur)))
						sendTags("append", data.Points{{Type: "tag", Key: fmt.Sprint(len(cur) - 1), Text: cur[len(cur)-1]}})
					}
					full := len(cur)
					for i := 0; i < 2; i++ {
						cur = cur[:len(cur)-1]
						sendTags("drop last", data.Points{{Type: "tag", Key: fmt.Sprint(len(cur)), Tombstone: 1}})
					}
					cur = append(cur, "", fmt.Sprintf("z%d", nOps))
					sendTags("grow over dropped entries", data.Points{{Type: "tag", Key: fmt.Sprint(len(cur) - 1), Text: cur[len(cur)-1]}})
					curTags[p.id] = cur
					if full > maxTags[p.id] {
						maxTags[p.id] = full
					}
					continue
				}
				before := append([]string(nil), curTags[p.id]...)
				after := append([]string(nil), before...)
				var pts data.Points
				switch wl.Draw(5) {
				case 0: // append one entry (a single live point at index len)
					after = append(after, fmt.Sprintf("g%d", nOps))
					pts = data.Points{{Type: "tag", Key: fmt.Sprint(len(after) - 1), Text: after[len(after)-1]}}
				case 1: // drop the last entry (a tombstone on the last index)
					if len(after) == 0 {
						continue
					}
					after = after[:len(after)-1]
					pts = data.Points{{Type: "tag", Key: fmt.Sprint(len(after)), Tombstone: 1}}
				case 2: // overwrite one entry
					if len(after) == 0 {
						continue
					}
					i := wl.Draw(len(after))
					after[i] = fmt.Sprintf("o%d", nOps)
					pts = data.Points{{Type: "tag", Key: fmt.Sprint(i), Text: after[i]}}
				case 3: // grow leaving a gap over an index that was written and dropped earlier: only the new last entry is sent
					if len(after)+2 > maxTags[p.id] {
						continue // a gap entry that never had a point is outside what Merge and Decode agree on (arrays, C10)
					}
					after = append(after, "", fmt.Sprintf("x%d", nOps))
					pts = data.Points{{Type: "tag", Key: fmt.Sprint(len(after) - 1), Text: after[len(after)-1]}}
				case 4: // what data.DiffPoints yields for an arbitrary rewrite of the array
					hasGap := false
					for _, t := range before {
						hasGap = hasGap || t == ""
					}
					if hasGap {
						continue
					}
					n := wl.Draw(5)
					after = after[:0]
					for i := 0; i < n; i++ {
						after = append(after, fmt.Sprintf("r%d.%d", nOps, i))
					}
					type tagsOnly struct {
						Tags []string `point:"tag"`
					}
					var err error
					pts, err = data.DiffPoints(tagsOnly{before}, tagsOnly{after})
					if err != nil {
						continue
					}
				}
				if len(pts) == 0 {
					continue
				}
				curTags[p.id] = after
				if len(after) > maxTags[p.id] {
					maxTags[p.id] = len(after)
				}
				for i := range pts {
					pts[i].Time = nextT()
					pts[i].Origin = "web"
				}
				affinity = p.id
				addOp(fmt.Sprintf("tags %s %v -> %v [%s]", p.id, before, after, shortPts(pts)), func(a *Actor) error {
					return client.SendNodePoints(a.Nc, p.id, append(data.Points(nil), pts...), true)
				})
			case 10: // a testNode where no client must run: below a plain node
				if len(others) == 0 {
					continue
				}
				nid++
				id := fmt.Sprintf("t%d", nid)
				parent := others[wl.Draw(len(others))]
				addOp(fmt.Sprintf("create %s under non-container %s", id, parent), mkNode(id, parent, typTestNode, nil, "web"))
			}
		}
		s.SampleText = fmt.Sprintf("cfg=%+v ops=%d: %s", cfg, nOps, strings.Join(sample, " | "))

		// optionally run part of the workload before the manager starts (initial scan finds nodes)
		pre := wl.Draw(3) == 0
		startMgr := func() {
			h.m = client.NewManager(h.nc, h.construct, []string{typHolder})
			h.runDone = make(chan error, 1)
			go func() { h.runDone <- h.m.Run() }()
		}
		mgrStarted := false
		if !pre {
			startMgr()
			mgrStarted = true
		}
		// In one run out of four the manager is also stopped in the middle of the workload, at an instant the scheduler
		// picks (scans, constructors and creation notices may be in progress): Run must return within 60 simulated
		// seconds and leave no client running.  A fresh manager takes over afterwards.
		earlyStop := 0 // 0: not planned, 1: planned, 2: Stop called, 3: Run has returned
		if cfg.EarlyStop {
			earlyStop = 1
		}
		var stopDeadline time.Time
		savedDelayPM := 0
		stopReturned := func() bool {
			select {
			case <-h.runDone:
			default:
				return false
			}
			h.mu.Lock()
			defer h.mu.Unlock()
			for _, ins := range h.ins {
				if ins.RunEnter != 0 && ins.RunExit == 0 {
					s.failLocked("C07", "stop-client", "Manager.Run returned but client #%d (%s) is still running (stop requested: %v)", ins.N, ins.Key, ins.Stops > 0)
					break
				}
			}
			return true
		}
		s.FaultEvents = func() []SimEvent {
			if !mgrStarted && earlyStop != 2 {
				return []SimEvent{{Key: "start manager", Do: func() { startMgr(); mgrStarted = true }}}
			}
			if mgrStarted && earlyStop == 1 && !s.workloadDone() {
				return []SimEvent{{Key: "fault stop manager", Do: func() {
					earlyStop = 2
					s.Fault("manager-stop-under-load")
					// bounded liveness is stated for the time after faults have stopped: no scheduler-injected stalls
					// (each up to 3 s, inside the manager's own request chains) while the bound runs
					savedDelayPM = s.DelayPM
					s.DelayPM = 0
					stopDeadline = time.Now().Add(stopBound)
					h.m.Stop(nil)
				}}}
			}
			return nil
		}
		s.OnQuiescent = append(s.OnQuiescent, func() { tr.CheckState(false) })
		s.AfterStep = append(s.AfterStep, func() {
			tr.Process()
			h.checkSafety()
			if earlyStop == 2 {
				if stopReturned() {
					earlyStop, mgrStarted = 3, false
					s.DelayPM = savedDelayPM
				} else if !time.Now().Before(stopDeadline) {
					s.Fail("C07", "stop", "Manager.Run did not return within 60 simulated seconds of Manager.Stop (stopped while the workload was running)")
				}
			}
		})
		s.Run()
		if s.Failed() {
			return
		}
		for earlyStop == 2 {
			if s.Failed() {
				return
			}
			s.quiesce()
			if stopReturned() {
				earlyStop, mgrStarted = 3, false
				s.DelayPM = savedDelayPM
				break
			}
			if s.StepOnce(false) {
				continue
			}
			if !time.Now().Before(stopDeadline) {
				s.Fail("C07", "stop", "Manager.Run did not return within 60 simulated seconds of Manager.Stop (stopped while the workload was running)")
				return
			}
			s.sleepOrWake(time.Until(stopDeadline))
		}
		if s.Failed() {
			return
		}
		if !mgrStarted {
			startMgr()
			mgrStarted = true
		}
		// leave the system alone: the manager's minute rescan and the clients' stop delays run on the simulated clock
		s.AdvanceIdle(3*time.Minute + 20*time.Second)
		tr.Process()
		if s.Failed() {
			return
		}
		tr.CheckState(true)
		if s.Failed() {
			return
		}
		h.checkQuiescent(prop)
		if s.Failed() {
			return
		}
		h.checkFolded()
		if s.Failed() {
			return
		}
		// stopping the manager stops every client and returns
		s.DelayPM = 0
		h.m.Stop(nil)
		deadline := time.Now().Add(stopBound)
		stopped := false
		for !stopped {
			s.quiesce()
			select {
			case <-h.runDone:
				stopped = true
				continue
			default:
			}
			if s.StepOnce(false) {
				continue
			}
			if !time.Now().Before(deadline) {
				break
			}
			s.sleepOrWake(time.Until(deadline))
		}
		if !stopped {
			s.Fail("C07", "stop", "Manager.Run did not return within 60 simulated seconds of Manager.Stop")
			return
		}
		h.mu.Lock()
		for _, ins := range h.ins {
			if ins.RunEnter != 0 && ins.RunExit == 0 {
				s.Fail("C07", "stop-client", "Manager.Run returned but client #%d (%s) is still running (stop requested: %v)", ins.N, ins.Key, ins.Stops > 0)
				break
			}
		}
		h.mu.Unlock()
	}
}

func init() {
	register(&Engine{Prop: "C07", Run: runMgr("C07")})
	register(&Engine{Prop: "C08", Run: runMgr("C08")})
}
