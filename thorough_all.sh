#!/bin/bash
# runs every check's thorough tier one after the other; VERIF_BUDGET_S caps the per-worker wall budget of the sim engines
cd "$(dirname "$0")"
rc=0
for p in C01 C02 C03 C05 C06 C07 C08 C09 C13 C14 C16 C17 C19 C20 C04; do
  echo "##### $p thorough  $(date +%T)"
  ./check $p thorough 2>&1 | grep -E "thorough:|VIOLATION|^--- |KNOWN-FINDING|exit 2|note:" | cut -c1-400
  r=${PIPESTATUS[0]}; [ "$r" != 0 ] && { echo "exit=$r"; rc=1; }
done
echo "##### done $(date +%T) rc=$rc"
exit $rc
