package sim

import (
	"fmt"
	"os"
	"sort"
	"strings"
	"sync"
	"time"

	"github.com/nats-io/nats.go"
	"github.com/simpleiot/simpleiot/client"
	"github.com/simpleiot/simpleiot/data"
)

// C02 — linked instances converge on the shared device tree.
//
// Two simulated instances, "up" and "down", each a bus server plus the real
// store.  On "down" the real Manager[Sync] runs the real SyncClient, which
// opens a second local connection (NoEcho) and a remote connection to
// nats://up:4222.  The workload writes on both sides of the link; the fault
// space is link loss with in-flight loss, sync disabled/enabled, upstream
// restart, delays.  After the last write and the last fault everything is
// healed and simulated time advances until the link has been connected for
// several sync periods; then both sides must hold, below the downstream
// device, the same nodes and for every identity the newest point either store
// accepted.

type c02Cfg struct {
	Period   int
	Faults   int
	DelayPM  int
	Ops      int
	PreSync  bool
	Restarts bool
	Phased   bool
}

type syncHarness struct {
	s        *Sim
	up, down *Instance
	trU, trD *Tracker
	mnc      *nats.Conn
	m        *client.Manager[client.Sync]
	done     chan error
	// passes counts catch-up passes the sync client started over the link: each begins by asking the upstream for the
	// device ("nodes.all.<device>" on the connection to "up"); the client runs them one after the other
	passes   int
	passSubj string
}

func (h *syncHarness) observe(ev nats.BusEvent) {
	if ev.Kind == "route" && ev.Conn != nil && ev.Conn.Host == "up" && ev.Op != nil && ev.Op.Subject == h.passSubj {
		h.passes++
	}
}

func (h *syncHarness) remoteConn() *nats.Conn {
	var rc *nats.Conn
	for _, c := range h.s.W.Conns() {
		if c.Host == "up" {
			rc = c // the newest one
		}
	}
	return rc
}

func (h *syncHarness) linkConnected() bool {
	rc := h.remoteConn()
	return rc != nil && h.s.W.Connected(rc)
}

// subtreeIDs: nodes at or below root through any edges, in either model.
func subtreeIDs(root string, refs ...*RefStore) map[string]bool {
	out := map[string]bool{root: true}
	changed := true
	for changed {
		changed = false
		for _, r := range refs {
			for k := range r.Edges {
				if out[k[0]] && !out[k[1]] {
					out[k[1]] = true
					changed = true
				}
			}
		}
	}
	return out
}

func newer(a, b data.Point) data.Point {
	if b.Time.After(a.Time) {
		return b
	}
	return a
}

// unionModel: last writer wins over everything either store accepted.
func unionModel(root string, a, b *RefStore) (nodePts map[string]map[PKey]data.Point, edges map[[2]string]*RefEdge) {
	ids := subtreeIDs(root, a, b)
	nodePts = map[string]map[PKey]data.Point{}
	edges = map[[2]string]*RefEdge{}
	for id := range ids {
		m := map[PKey]data.Point{}
		for _, r := range []*RefStore{a, b} {
			for k, p := range r.NodePts[id] {
				if old, ok := m[k]; ok {
					m[k] = newer(old, p)
				} else {
					m[k] = p
				}
			}
		}
		nodePts[id] = m
	}
	for _, r := range []*RefStore{a, b} {
		for k, e := range r.Edges {
			if !ids[k[0]] || !ids[k[1]] || k[1] == root {
				continue // the device's own edge is placed differently on both sides and is not synced
			}
			ue := edges[k]
			if ue == nil {
				ue = &RefEdge{Up: e.Up, Down: e.Down, Type: e.Type, Pts: map[PKey]data.Point{}}
				edges[k] = ue
			}
			for pk, p := range e.Pts {
				if old, ok := ue.Pts[pk]; ok {
					ue.Pts[pk] = newer(old, p)
				} else {
					ue.Pts[pk] = p
				}
			}
		}
	}
	return
}

// dumpSubtree reads the device subtree (deleted included) from one instance.
func dumpSubtree(in *Instance, root string) (map[string]data.NodeEdge, error) {
	all, err := in.Dump()
	if err != nil {
		return nil, err
	}
	// nodes at or below root
	below := map[string]bool{root: true}
	for changed := true; changed; {
		changed = false
		for _, e := range all {
			if below[e.Parent] && !below[e.ID] {
				below[e.ID] = true
				changed = true
			}
		}
	}
	out := map[string]data.NodeEdge{}
	for _, e := range all {
		if below[e.ID] && (e.ID == root || below[e.Parent]) {
			out[e.Parent+"/"+e.ID] = e
		}
	}
	return out, nil
}

func tombOf(pts data.Points) float64 {
	for _, p := range pts {
		if p.Type == data.PointTypeTombstone && normKey(p.Key) == "0" {
			return p.Value
		}
	}
	return 0
}

// compare: what a user sees below the device (placements reachable through edges that are not deleted) must be the
// same on both sides and equal, identity by identity, to the newest point either store accepted.  A placement that is
// deleted on one side and deleted or absent on the other is the same thing to a user and is not compared further.
func (h *syncHarness) compare(root string) {
	s := h.s
	h.trU.Process()
	h.trD.Process()
	wantNodes, wantEdges := unionModel(root, h.trU.Ref, h.trD.Ref)
	// live placements of the union model, reachable from the device
	wantLive := map[[2]string]*RefEdge{}
	var walk func(id string, d int)
	walk = func(id string, d int) {
		if d > 60 {
			return
		}
		for k, e := range wantEdges {
			if k[0] == id && e.Tombstone() == 0 {
				if _, ok := wantLive[k]; !ok {
					wantLive[k] = e
					walk(k[1], d+1)
				}
			}
		}
	}
	walk(root, 0)
	// The catch-up pass descends only where the two device hashes differ.  The hash is an XOR of CRC-32 checksums,
	// which is linear: different content can hash alike (known finding F-C02-hash-collision).  That case is told apart
	// exactly -- both stores report hashes that are right for their content by the independent Merkle implementation,
	// and the two device hashes, with the device's own edge points backed out as syncNode does, are equal -- and it
	// is reported under its own clause; any divergence with differing or wrong hashes stays what it was.
	collision := ""
	{
		var hs [2]uint32
		ok := true
		for i, in := range []*Instance{h.up, h.down} {
			all, err := in.Dump()
			if err != nil || CheckHashes(all) != "" {
				ok = false
				break
			}
			found := false
			for _, e := range all {
				if e.ID == root {
					hh := e.Hash
					for _, p := range e.EdgePoints {
						hh ^= refCRC(p)
					}
					hs[i] = hh
					found = true
					break
				}
			}
			if !found {
				ok = false
				break
			}
		}
		if ok && hs[0] == hs[1] {
			collision = fmt.Sprintf("both stores report the same device hash %#x (each correct for its own content), so catch-up never descends; ", hs[0])
		}
	}
	fail := func(clause, detail string) {
		if collision != "" {
			s.Fail("C02", "hash-collision", "%s%s: %s", collision, clause, detail)
			return
		}
		s.Fail("C02", clause, "%s", detail)
	}
	if os.Getenv("VERIF_APPLOG") != "" { // debugging aid: both stores as they are when compared
		for _, side := range []*Instance{h.up, h.down} {
			all, _ := dumpSubtree(side, root)
			var ks []string
			for k := range all {
				ks = append(ks, k)
			}
			sort.Strings(ks)
			for _, k := range ks {
				e := all[k]
				fmt.Fprintf(os.Stderr, "DUMP %s %s hash=%#x pts=%s | edge=%s\n", side.Name, k, e.Hash, shortPts(e.Points), shortPts(e.EdgePoints))
			}
		}
	}
	for _, side := range []struct {
		name string
		in   *Instance
	}{{"up", h.up}, {"down", h.down}} {
		all, err := dumpSubtree(side.in, root)
		if err != nil {
			s.Fail("C02", "harness", "dump %s: %v", side.name, err)
			return
		}
		var rootEdge *data.NodeEdge
		byParent := map[string][]data.NodeEdge{}
		for _, e := range all {
			e := e
			if e.ID == root {
				rootEdge = &e
				continue
			}
			byParent[e.Parent] = append(byParent[e.Parent], e)
		}
		if rootEdge == nil {
			s.Fail("C02", "missing-device", "instance %s does not hold the downstream device %s at all after the link has been up for several sync periods", side.name, root)
			return
		}
		if d := comparePointsOpt(fmt.Sprintf("%s: device %s", side.name, root), rootEdge.Points, wantNodes[root], true); d != "" {
			fail("diverged-points", d)
			return
		}
		got := map[[2]string]data.NodeEdge{}
		var gw func(id string, d int)
		gw = func(id string, d int) {
			if d > 60 {
				return
			}
			for _, e := range byParent[id] {
				k := [2]string{e.Parent, e.ID}
				if tombOf(e.EdgePoints) == 0 {
					if _, ok := got[k]; !ok {
						got[k] = e
						gw(e.ID, d+1)
					}
				}
			}
		}
		gw(root, 0)
		var gk, wk []string
		for k := range got {
			gk = append(gk, k[0]+"/"+k[1])
		}
		for k := range wantLive {
			wk = append(wk, k[0]+"/"+k[1])
		}
		sort.Strings(gk)
		sort.Strings(wk)
		if strings.Join(gk, " ") != strings.Join(wk, " ") {
			fail("diverged-nodes", fmt.Sprintf("instance %s shows live placements [%s] below the device; by the newest tombstones either store accepted they are [%s]",
				side.name, strings.Join(gk, " "), strings.Join(wk, " ")))
			return
		}
		for k, we := range wantLive {
			g := got[k]
			if d := comparePointsOpt(fmt.Sprintf("%s: node %s", side.name, k[1]), g.Points, wantNodes[k[1]], true); d != "" {
				fail("diverged-points", d)
				return
			}
			if d := comparePointsOpt(fmt.Sprintf("%s: edge %s/%s", side.name, k[0], k[1]), g.EdgePoints, we.Pts, true); d != "" {
				fail("diverged-edge-points", d)
				return
			}
		}
	}
	s.Probe("converged")
}

func runC02(s *Sim) {
	wl := s.WL
	cfg := c02Cfg{Period: wl.Range(1, 20)}
	if wl.Chance(2, 3) {
		cfg.Faults = wl.Range(1, 5)
	} else {
		wl.Raw()
	}
	if wl.Chance(1, 4) {
		cfg.DelayPM = wl.Range(1, 10)
	} else {
		wl.Raw()
	}
	cfg.PreSync = wl.Chance(1, 2)
	// While finding F-C02-delete-not-synced is open the free-form workload issues no delete/undelete.  One run in three is
	// a phased history instead, which stays outside the finding's region: deletions are only made while the link is up
	// and has settled (they travel in real time), the outage that follows sees writes and *un*deletions on either side,
	// and catch-up has to bring those across.
	if !fenceOpen("c02-delete") && wl.Chance(1, 3) {
		cfg.Phased, cfg.PreSync, cfg.Faults = true, true, 0
		if cfg.Period > 4 {
			cfg.Period = 1 + cfg.Period%4 // the phases wait for whole sync periods: keep them short
		}
	}
	s.DelayPM = cfg.DelayPM
	if cfg.Phased {
		// the phases before the outage rely on the real-time path having delivered (the deletions above all: catch-up does
		// not carry them, F-C02-delete-not-synced); injected stalls begin with the outage
		s.DelayPM = 0
	}
	up := s.NewInstance("up", "")
	down := s.NewInstance("down", "")
	if s.Failed() {
		return
	}
	h := &syncHarness{s: s, up: up, down: down}
	h.trU, h.trD = up.Track(), down.Track()
	if s.Failed() {
		return
	}
	// the two stores' own rebroadcast/reply monitors stay on; C06's "payload" clause compares what was written
	dev := down.RootID
	h.passSubj = "nodes.all." + dev
	s.BusObservers = append(s.BusObservers, h.observe)
	var err error
	h.mnc, err = nats.Connect(down.URL(), nats.Name("mgr"))
	if err != nil {
		s.Fail("C02", "harness", "connect: %v", err)
		return
	}
	s.cleanup = append(s.cleanup, h.mnc.Close)
	setup, _ := nats.Connect(down.URL(), nats.Name("setup"))
	s.cleanup = append(s.cleanup, setup.Close)
	s.Call(func() {
		sendType(s, setup, client.Sync{ID: "sync1", Parent: dev, Description: "to up", URI: "nats://up:4222", Period: cfg.Period})
	})
	if s.Failed() {
		return
	}
	h.m = client.NewManager(h.mnc, client.NewSyncClient, nil)
	h.done = make(chan error, 1)
	go func() { h.done <- h.m.Run() }()
	if cfg.PreSync {
		s.AdvanceIdle(time.Duration(cfg.Period+2) * time.Second) // initial transfer of the device upstream
	}

	// --- workload ---------------------------------------------------------------------------
	aD, _ := nats.Connect(down.URL(), nats.Name("wd"))
	aU, _ := nats.Connect(up.URL(), nats.Name("wu"))
	s.cleanup = append(s.cleanup, aD.Close, aU.Close)
	actD, actU := s.NewActor("wd", aD), s.NewActor("wu", aU)
	var stampN int64
	stamp := func() time.Time { // unique, strictly increasing, never a whole millisecond (the code under test stamps with the simulated clock)
		stampN++
		return time.Now().Truncate(time.Millisecond).Add(time.Duration(1 + stampN%900000))
	}
	nodes := []string{dev}
	type edgeT struct{ parent, id string }
	var edges []edgeT
	var sample []string
	nOps := 0
	add := func(a *Actor, name string, fn func()) {
		if nOps < 16 {
			sample = append(sample, a.Name+": "+name)
		}
		nOps++
		a.Add(name, fn)
	}
	nid := 0
	partitioned := false
	disabled := false
	upDown := false
	if cfg.Phased {
		s.Probe("phased history (delete with the link up, undelete during an outage)")
		var bar [8]int
		var barMu sync.Mutex
		barrier := func(k int) {
			for _, a := range []*Actor{actD, actU} {
				add(a, fmt.Sprintf("barrier %d", k), func() {
					barMu.Lock()
					bar[k]++
					barMu.Unlock()
					for {
						barMu.Lock()
						n := bar[k]
						barMu.Unlock()
						if n >= 2 {
							return
						}
						time.Sleep(200 * time.Millisecond)
					}
				})
			}
		}
		pick := func() *Actor {
			if wl.Chance(1, 2) {
				return actU
			}
			return actD
		}
		settle := time.Duration(2*cfg.Period+3) * time.Second
		// phase A: nodes directly under the device, created on either side, a few writes
		nNodes := 1 + wl.Draw(3)
		var ids []string
		for i := 0; i < nNodes; i++ {
			a := pick()
			nid++
			id := fmt.Sprintf("n%d", nid)
			ids = append(ids, id)
			add(a, fmt.Sprintf("create %s under %s", id, dev), func() {
				t := stamp()
				_ = client.SendNode(a.Nc, data.NodeEdge{ID: id, Parent: dev, Type: "variable",
					Points:     data.Points{{Type: "description", Text: id, Time: t}},
					EdgePoints: data.Points{{Type: data.PointTypeTombstone, Value: 0, Time: stamp()}}}, a.Name)
			})
		}
		for _, a := range []*Actor{actD, actU} {
			add(a, fmt.Sprintf("sleep %s (transfer)", settle), func() { time.Sleep(settle) })
		}
		barrier(0)
		// a second placement of one node (a group under the device, the node mirrored into it), deleted again through
		// that second edge on the upstream side while the link is up: the deletion has to travel down in real time
		if wl.Chance(1, 2) {
			ga, ma := pick(), pick()
			n := ids[wl.Draw(len(ids))]
			add(ga, fmt.Sprintf("create group g1 under %s", dev), func() {
				_ = client.SendNode(ga.Nc, data.NodeEdge{ID: "g1", Parent: dev, Type: data.NodeTypeGroup,
					Points:     data.Points{{Type: "description", Text: "g1", Time: stamp()}},
					EdgePoints: data.Points{{Type: data.PointTypeTombstone, Value: 0, Time: stamp()}}}, ga.Name)
			})
			for _, a := range []*Actor{actD, actU} {
				add(a, fmt.Sprintf("sleep %s (transfer)", settle), func() { time.Sleep(settle) })
			}
			barrier(4)
			add(ma, fmt.Sprintf("mirror %s under g1", n), func() { _ = client.MirrorNode(ma.Nc, n, "g1", ma.Name) })
			for _, a := range []*Actor{actD, actU} {
				add(a, fmt.Sprintf("sleep %s (transfer)", settle), func() { time.Sleep(settle) })
			}
			barrier(5)
			add(actU, fmt.Sprintf("delete g1/%s (second edge, upstream, link up)", n), func() {
				_ = client.SendEdgePoint(actU.Nc, n, "g1", data.Point{Type: data.PointTypeTombstone, Value: 1, Time: stamp(), Origin: actU.Name}, true)
			})
			for _, a := range []*Actor{actD, actU} {
				add(a, "sleep 3s (deletion travels)", func() { time.Sleep(3 * time.Second) })
			}
			barrier(6)
		}
		// deletions while the link is up: each on one side, then time to travel
		var deleted []string
		for _, id := range ids {
			if wl.Chance(2, 3) {
				a := pick()
				id := id
				deleted = append(deleted, id)
				add(a, fmt.Sprintf("delete %s/%s (link up)", dev, id), func() {
					_ = client.SendEdgePoint(a.Nc, id, dev, data.Point{Type: data.PointTypeTombstone, Value: 1, Time: stamp(), Origin: a.Name}, true)
				})
			}
		}
		for _, a := range []*Actor{actD, actU} {
			add(a, "sleep 3s (deletions travel)", func() { time.Sleep(3 * time.Second) })
		}
		barrier(1)
		// phase B: outage
		kind := wl.Draw(2)
		add(actD, []string{"outage: sync disabled", "outage: link down"}[kind], func() {
			s.DelayPM = cfg.DelayPM
			if kind == 0 {
				disabled = true
				s.Fault("sync-disable")
				_ = client.SendNodePoint(setup, "sync1", data.Point{Type: data.PointTypeDisabled, Value: 1, Origin: "web", Time: stamp()}, true)
			} else {
				partitioned = true
				s.Fault("link-down")
				s.W.SetPartitioned("up", true)
			}
			time.Sleep(time.Second)
		})
		barrier(2)
		for _, id := range deleted {
			if wl.Chance(3, 4) {
				a := pick()
				id := id
				add(a, fmt.Sprintf("undelete %s/%s (during the outage)", dev, id), func() {
					_ = client.SendEdgePoint(a.Nc, id, dev, data.Point{Type: data.PointTypeTombstone, Value: 0, Time: stamp(), Origin: a.Name}, true)
				})
				if wl.Chance(1, 2) {
					v := float64(nOps)
					add(a, fmt.Sprintf("points %s value=%v (during the outage)", id, v), func() {
						_ = client.SendNodePoints(a.Nc, id, data.Points{{Type: "value", Value: v, Time: stamp(), Origin: a.Name}}, true)
					})
				}
			}
		}
		for _, id := range ids {
			if wl.Chance(1, 3) {
				live := true
				for _, d := range deleted {
					live = live && d != id
				}
				if !live {
					continue
				}
				a := pick()
				id := id
				v := float64(nOps) + 0.25
				add(a, fmt.Sprintf("points %s value=%v (during the outage)", id, v), func() {
					_ = client.SendNodePoints(a.Nc, id, data.Points{{Type: "value", Value: v, Time: stamp(), Origin: a.Name}}, true)
				})
			}
		}
		barrier(3)
		// phase C: the outage ends; the common tail heals whatever is still broken, waits for stability and compares
	}
	allowDelete := fenceOpen("c02-delete")
	allowUpCreate := fenceOpen("c02-up-create")
	allowEdgePts := fenceOpen("c02-edge-points")
	for !cfg.Phased && wl.More(10) {
		side := actD
		if wl.Chance(1, 2) {
			side = actU
		}
		a := side
		switch weighted(wl, []int{8, 3, 2, 2, 2, 2}) {
		case 0: // node points
			n := nodes[wl.Draw(len(nodes))]
			typ := []string{"value", "description", "units"}[wl.Draw(3)]
			key := []string{"", "a"}[wl.Draw(2)]
			v := float64(nOps)
			txt := ""
			if typ != "value" {
				txt = fmt.Sprintf("t%d", nOps)
			}
			two := wl.Chance(1, 3)
			add(a, fmt.Sprintf("points %s (%s,%q)=%v two=%v", n, typ, key, v, two), func() {
				pts := data.Points{{Type: typ, Key: key, Value: v, Text: txt, Time: stamp(), Origin: a.Name}}
				if two {
					pts = append(pts, data.Point{Type: "extra", Key: key, Value: v + 0.5, Time: stamp(), Origin: a.Name})
					if int(v)%5 == 4 {
						// an entry written and removed in one go (point-level tombstone) under an identity nobody has held before:
						// it has to reach the other side like any other point (decided by the operation count, not by a draw, so
						// that the tapes of the directed replays keep their meaning)
						pts[1].Type, pts[1].Tombstone = fmt.Sprintf("gone%d", int(v)), 1
					}
				}
				_ = client.SendNodePoints(a.Nc, n, pts, true)
			})
		case 1: // create a child node (on either side)
			if a == actU && !allowUpCreate {
				continue
			}
			nid++
			id := fmt.Sprintf("n%d", nid)
			parent := nodes[wl.Draw(len(nodes))]
			nodes = append(nodes, id)
			edges = append(edges, edgeT{parent, id})
			add(a, fmt.Sprintf("create %s under %s", id, parent), func() {
				t := stamp()
				_ = client.SendNode(a.Nc, data.NodeEdge{ID: id, Parent: parent, Type: "variable",
					Points:     data.Points{{Type: "description", Text: id, Time: t}},
					EdgePoints: data.Points{{Type: data.PointTypeTombstone, Value: 0, Time: stamp()}}}, a.Name)
			})
		case 2: // delete
			if len(edges) == 0 || !allowDelete {
				continue
			}
			e := edges[wl.Draw(len(edges))]
			add(a, fmt.Sprintf("delete %s/%s", e.parent, e.id), func() {
				_ = client.SendEdgePoint(a.Nc, e.id, e.parent, data.Point{Type: data.PointTypeTombstone, Value: 1, Time: stamp(), Origin: a.Name}, true)
			})
		case 3: // undelete
			if len(edges) == 0 || !allowDelete {
				continue
			}
			e := edges[wl.Draw(len(edges))]
			add(a, fmt.Sprintf("undelete %s/%s", e.parent, e.id), func() {
				_ = client.SendEdgePoint(a.Nc, e.id, e.parent, data.Point{Type: data.PointTypeTombstone, Value: 0, Time: stamp(), Origin: a.Name}, true)
			})
		case 4: // other edge points
			if len(edges) == 0 || !allowEdgePts {
				continue
			}
			e := edges[wl.Draw(len(edges))]
			txt := fmt.Sprintf("r%d", nOps)
			add(a, fmt.Sprintf("edge point %s/%s role=%s", e.parent, e.id, txt), func() {
				_ = client.SendEdgePoint(a.Nc, e.id, e.parent, data.Point{Type: "role", Text: txt, Time: stamp(), Origin: a.Name}, true)
			})
		case 5: // let some time pass on this side
			d := time.Duration(1+wl.Draw(30)) * time.Second
			add(a, fmt.Sprintf("sleep %s", d), func() { time.Sleep(d) })
		}
	}
	s.SampleText = fmt.Sprintf("cfg=%+v ops=%d: %s", cfg, nOps, strings.Join(sample, " | "))

	// --- faults -------------------------------------------------------------------------------
	faultsLeft := cfg.Faults
	s.FaultEvents = func() []SimEvent {
		if s.workloadDone() {
			return nil
		}
		var evs []SimEvent
		if partitioned {
			evs = append(evs, SimEvent{Key: "fault link-up", Do: func() { partitioned = false; s.W.SetPartitioned("up", false); s.Fault("link-up") }})
		} else if faultsLeft > 0 && !upDown {
			evs = append(evs, SimEvent{Key: "fault link-down", Do: func() {
				faultsLeft--
				partitioned = true
				s.W.SetPartitioned("up", true)
				s.Fault("link-down")
			}})
			if rc := h.remoteConn(); rc != nil && s.W.Connected(rc) {
				evs = append(evs, SimEvent{Key: "fault link-cut", Do: func() {
					// a broken TCP stream that reconnects by itself: in-flight traffic is lost
					faultsLeft--
					n := s.W.InboundQueued(rc)
					keep := 0
					if n > 0 {
						keep = s.SCH.Draw(n + 1)
					}
					s.W.CutLink(rc, keep)
					s.Fault("link-cut")
				}})
			}
		}
		if fenceOpen("c02-disable") {
			if disabled {
				evs = append(evs, SimEvent{Key: "fault sync-enable", Do: func() {
					disabled = false
					s.Fault("sync-enable")
					s.Call(func() {
						_ = client.SendNodePoint(setup, "sync1", data.Point{Type: data.PointTypeDisabled, Value: 0, Origin: "web", Time: stamp()}, true)
					})
				}})
			} else if faultsLeft > 0 {
				evs = append(evs, SimEvent{Key: "fault sync-disable", Do: func() {
					faultsLeft--
					disabled = true
					s.Fault("sync-disable")
					s.Call(func() {
						_ = client.SendNodePoint(setup, "sync1", data.Point{Type: data.PointTypeDisabled, Value: 1, Origin: "web", Time: stamp()}, true)
					})
				}})
			}
		}
		if fenceOpen("c02-upstream-restart") {
			if upDown {
				evs = append(evs, SimEvent{Key: "fault upstream-start", Do: func() {
					upDown = false
					s.W.SetServerUp("up", true)
					up.Start()
					s.Fault("upstream-start")
				}})
			} else if faultsLeft > 0 && !partitioned && s.workloadQuiescent() {
				evs = append(evs, SimEvent{Key: "fault upstream-stop", Do: func() {
					faultsLeft--
					upDown = true
					s.W.SetServerUp("up", false)
					up.Stop()
					s.Fault("upstream-stop")
				}})
			}
		}
		return evs
	}
	s.AfterStep = append(s.AfterStep, h.trU.Process, h.trD.Process)
	s.Run()
	if s.Failed() {
		return
	}
	// --- heal, then bounded liveness -------------------------------------------------------------
	if upDown {
		s.W.SetServerUp("up", true)
		up.Start()
	}
	if partitioned {
		s.W.SetPartitioned("up", false)
	}
	if disabled {
		s.Call(func() {
			_ = client.SendNodePoint(setup, "sync1", data.Point{Type: data.PointTypeDisabled, Value: 0, Origin: "web", Time: stamp()}, true)
		})
	}
	// reconnect back-off is at most 6 simulated minutes per attempt; the sync connect retry is 30 s
	deadline := time.Now().Add(40 * time.Minute)
	for !h.linkConnected() && time.Now().Before(deadline) && !s.Failed() {
		s.AdvanceIdle(10 * time.Second)
	}
	if s.Failed() {
		return
	}
	if !h.linkConnected() {
		s.Fail("C02", "no-reconnect", "the sync link is not connected 40 simulated minutes after every fault was healed")
		return
	}
	// catch-up may need one pass per level of the tree: let sync passes run until both sides have stopped changing for
	// two consecutive periods (at least 4, at most 40 periods), then compare
	// A window counts towards stability only if a pass began in it: a pass that sits in a request whose reply the outage
	// took (20 s) leaves the state just as still, and the property speaks of the link being up *through* catch-up. Without
	// passes the loop runs to its bound (40 periods and 150 s) and the comparison is made all the same.
	var last uint64
	stable := 0
	tailStart := time.Now()
	passes0 := h.passes
	for i := 0; (i < 40 || time.Since(tailStart) < 150*time.Second) && !s.Failed(); i++ {
		before := h.passes
		s.AdvanceIdle(time.Duration(cfg.Period)*time.Second + 500*time.Millisecond)
		du, e1 := up.Dump()
		dd, e2 := down.Dump()
		if e1 != nil || e2 != nil {
			s.Fail("C02", "harness", "dump failed: %v %v", e1, e2)
			return
		}
		d := mix(stateDigest(du), stateDigest(dd))
		if d != last {
			stable = 0
		} else if h.passes > before {
			stable++
		}
		last = d
		if stable >= 2 && i >= 3 && h.passes-passes0 >= 3 {
			break
		}
	}
	if s.Failed() {
		return
	}
	if stable < 2 {
		s.Probe("not-stable-at-tail-bound")
	}
	h.compare(dev)
	if s.Failed() {
		return
	}
	h.trU.CheckState(true)
	h.trD.CheckState(true)
	if s.Failed() {
		return
	}
	// stop the manager (and with it the sync client)
	h.m.Stop(nil)
	deadline = time.Now().Add(15 * time.Second)
	for {
		s.quiesce()
		select {
		case <-h.done:
			return
		default:
		}
		if s.StepOnce(false) {
			continue
		}
		if time.Now().After(deadline) {
			s.Fail("C07", "stop", "Manager[Sync].Run did not return within 15 simulated seconds of Stop")
			return
		}
		s.sleepOrWake(time.Until(deadline))
	}
}

func init() { register(&Engine{Prop: "C02", Run: runC02, MaxSteps: 40000}) }
