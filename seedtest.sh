#!/bin/bash
# seedtest.sh <patch.diff> <prop> [<prop> ...] : apply a seeded change to /repo, run the quick checks, undo it
patch=$1; shift
cd /repo || exit 2
git diff --quiet || { echo "/repo has uncommitted changes"; exit 2; }
git apply "$patch" || { echo "patch does not apply"; exit 2; }
trap 'git -C /repo checkout -- . ; git -C /repo status --short | head -3' EXIT
for p in "$@"; do
  echo "=== $p"
  (cd /verif && VERIF_EVIDENCE_DIR=/dev/shm/seedtest-evidence VERIF_BUDGET_S=${BUDGET:-25} ./check $p quick 2>&1 | grep -E "^VIOLATION|^--- |quick:|exit 2|KNOWN" | cut -c1-420 | head -8)
done
