#!/bin/bash
# dev helper: build the sim test binary and run one worker: dev.sh PROP [runs] [seed]
export GOFLAGS=-mod=mod GOPROXY=off GOSUMDB=off GOTOOLCHAIN=local
set -e
mkdir -p /tmp/vout; rm -f /tmp/vout/*.json /tmp/vout/*.progress
cd /verif/sim && cp /repo/go.sum . && go1.26.8 test -c -tags verif -overlay /verif/overlay/overlay.json -o /tmp/vout/sim.test . 
cd /tmp/vout
VERIF_FENCES=${FENCES:-} VERIF_KNOWN=${KNOWN:-} VERIF_PROP=$1 VERIF_SEED=${3:-1} VERIF_RUNS=${2:-50} VERIF_BUDGET_S=${BUDGET:-120} VERIF_OUT=/tmp/vout GOMAXPROCS=1 ./sim.test -test.run TestEngine -test.timeout 0 2>&1 | tail -5
python3 - <<'PY'
import json,glob
d=json.load(open('/tmp/vout/w0.json'))
for k in ['runs','wall_s','sim_s','steps','faults','probes','violations','bubble_leaks','leak_msgs']: print(k,d.get(k))
print('sched',len(d['sched_hashes']),'state',len(d['state_hashes']),'nontriv',len(d['nontrivial_hashes']))
for f in (d["violations"] or []):
    r=json.load(open(f))
    print(r['violation']); print(r['reproduced']); print('wl',r['wl']); print('sch',r['sch']); print(r['workload']); print('\n'.join(r['schedule'][-int(__import__('os').environ.get('TAIL','30')):]))
PY
