#!/bin/bash
# Offline setup: generate the runtime build overlay from the installed GOROOT and warm the Go build cache for the
# simulation engines (plain and race builds).
set -e
export GOFLAGS=-mod=mod GOPROXY=off GOSUMDB=off GOTOOLCHAIN=local
cd "$(dirname "$0")"
./overlay/gen.sh
d=$(mktemp -d)
trap 'rm -rf "$d"' EXIT
sed -e "s#=> /repo#=> /repo#" -e "s#=> ../simnats#=> $(pwd)/simnats#" sim/go.mod > "$d/go.mod"
cp /repo/go.sum "$d/go.sum"
(cd sim && CGO_ENABLED=0 go1.26.8 test -c -tags verif -overlay ../overlay/overlay.json -modfile "$d/go.mod" -o "$d/sim.test" .)
(cd sim && CGO_ENABLED=1 go1.26.8 test -c -race -tags verif -overlay ../overlay/overlay.json -modfile "$d/go.mod" -o "$d/simrace.test" .)
echo setup ok
