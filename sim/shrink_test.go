package sim

import (
	"testing"
	"time"
)

// shrink minimises a failing (workload tape, schedule tape) pair while the
// same violation class persists.  Order: the schedule first (towards the FIFO,
// fault-free schedule = all zeros), then whole workload records, then single
// values.  Everything is re-executed against the real code in a fresh bubble.
func shrink(t *testing.T, eng *Engine, seed uint64, wl, sch []uint64, class string, budget time.Duration) ([]uint64, []uint64, RunResult) {
	deadline := time.Now().Add(budget)
	var best RunResult
	fails := func(w, s []uint64) (RunResult, bool) {
		r := runTapes(t, eng, seed, w, s)
		return r, r.Viol != nil && r.Viol.Class() == class
	}
	r, ok := fails(wl, sch)
	if !ok {
		return wl, sch, r
	}
	best = r
	wl, sch = trimZeros(r.WL), trimZeros(r.SCH)
	out := func() bool { return time.Now().After(deadline) }

	try := func(w, s []uint64) bool {
		if out() {
			return false
		}
		r, ok := fails(w, s)
		if ok {
			best = r
			wl, sch = trimZeros(r.WL), trimZeros(r.SCH)
		}
		return ok
	}

	for round := 0; round < 4 && !out(); round++ {
		before := len(wl) + len(sch) + sum(wl) + sum(sch)
		// 1. schedule: all FIFO?
		if len(sch) > 0 {
			try(wl, nil)
		}
		// 2. schedule: shortest failing prefix (rest zero)
		for n := len(sch) / 2; n >= 1 && len(sch) > 0 && !out(); n /= 2 {
			for len(sch) > n {
				if !try(wl, sch[:len(sch)-n]) {
					break
				}
			}
		}
		// 3. workload: delete marked records, big chunks first
		for chunk := len(best.Marks) / 2; chunk >= 1 && !out(); chunk /= 2 {
			for i := 0; i+chunk <= len(best.Marks) && !out(); {
				marks := best.Marks
				lo := marks[i]
				hi := len(wl)
				if i+chunk < len(marks) {
					hi = marks[i+chunk]
				}
				if lo >= len(wl) || lo >= hi {
					i++
					continue
				}
				if hi > len(wl) {
					hi = len(wl)
				}
				cand := append(append([]uint64(nil), wl[:lo]...), wl[hi:]...)
				if !try(cand, sch) {
					i++
				}
			}
		}
		// 4. schedule: zero blocks
		for chunk := len(sch) / 2; chunk >= 1 && !out(); chunk /= 2 {
			for i := 0; i+chunk <= len(sch) && !out(); i += chunk {
				if allZero(sch[i : i+chunk]) {
					continue
				}
				cand := append([]uint64(nil), sch...)
				for j := i; j < i+chunk; j++ {
					cand[j] = 0
				}
				try(wl, cand)
			}
		}
		// 5. workload: zero single values, then halve
		for i := 0; i < len(wl) && !out(); i++ {
			if wl[i] == 0 {
				continue
			}
			cand := append([]uint64(nil), wl...)
			cand[i] = 0
			if try(cand, sch) {
				continue
			}
			if wl[i] > 1 {
				cand = append([]uint64(nil), wl...)
				cand[i] = wl[i] / 2
				try(cand, sch)
			}
		}
		if len(wl)+len(sch)+sum(wl)+sum(sch) >= before {
			break
		}
	}
	return wl, sch, best
}

func trimZeros(v []uint64) []uint64 {
	n := len(v)
	for n > 0 && v[n-1] == 0 {
		n--
	}
	return append([]uint64(nil), v[:n]...)
}

func allZero(v []uint64) bool {
	for _, x := range v {
		if x != 0 {
			return false
		}
	}
	return true
}

func sum(v []uint64) int {
	s := 0
	for _, x := range v {
		if x > 1<<20 {
			s += 1 << 20
		} else {
			s += int(x)
		}
	}
	return s
}
