package sim

import (
	"errors"
	"fmt"
	"math"
	"strings"
	"time"

	"github.com/nats-io/nats.go"
	"github.com/simpleiot/simpleiot/client"
	"github.com/simpleiot/simpleiot/data"
)

// The graph workload serves C03 (hashes), C05 (refused writes, DAG) and C06
// (rebroadcast): histories of node creation (edge-first, points-first, under
// not yet attached parents), mirrors, moves, deletions, undeletions, stale
// and repeated writes, refused writes of every kind, verification requests
// and clean restarts over generated graph shapes.  The three properties share
// the tracker's monitors; the engines differ in the operation mix.

type planGraph struct {
	root  string
	nodes []string
	typ   map[string]string
	edges map[[2]string]bool // up,down (planned; the tracker's model is the authority at run time)
	clock int64
}

func (g *planGraph) parentsOf(n string) []string {
	var out []string
	for e := range g.edges {
		if e[1] == n {
			out = append(out, e[0])
		}
	}
	sortStrings(out)
	return out
}

func (g *planGraph) isAbove(anc, n string, seen map[string]bool) bool {
	if anc == n {
		return true
	}
	if seen[n] {
		return false
	}
	seen[n] = true
	for _, p := range g.parentsOf(n) {
		if g.isAbove(anc, p, seen) {
			return true
		}
	}
	return false
}

func sortStrings(s []string) {
	for i := 1; i < len(s); i++ {
		for j := i; j > 0 && s[j] < s[j-1]; j-- {
			s[j], s[j-1] = s[j-1], s[j]
		}
	}
}

type opMix struct {
	create, createDetachedChild, nodePts, edgePts, mirror, move, del, undel, stale, refused, verify, nanBatch int
}

var mixC03 = opMix{create: 6, createDetachedChild: 3, nodePts: 8, edgePts: 4, mirror: 4, move: 2, del: 3, undel: 2, stale: 3, refused: 1, verify: 2, nanBatch: 0}
var mixC05 = opMix{create: 5, createDetachedChild: 1, nodePts: 4, edgePts: 2, mirror: 2, move: 1, del: 2, undel: 1, stale: 1, refused: 10, verify: 1, nanBatch: 4}
var mixC06 = opMix{create: 7, createDetachedChild: 2, nodePts: 8, edgePts: 5, mirror: 5, move: 2, del: 4, undel: 3, stale: 1, refused: 1, verify: 0, nanBatch: 0}

func (m opMix) table() []int {
	return []int{m.create, m.createDetachedChild, m.nodePts, m.edgePts, m.mirror, m.move, m.del, m.undel, m.stale, m.refused, m.verify, m.nanBatch}
}

func weighted(t *Tape, w []int) int {
	tot := 0
	for _, x := range w {
		tot += x
	}
	v := t.Draw(tot)
	for i, x := range w {
		if v < x {
			return i
		}
		v -= x
	}
	return 0
}

type graphCfg struct {
	Writers  int
	Restarts int
	DelayPM  int
	Ops      int
	Burst    bool
}

// graphBurst is set by graph_burst_test.go (build tag verif): it switches a run to overlapping handlers and returns
// the function that ends the overlap and probes the final state sequentially.
var graphBurst func(s *Sim, in *Instance, tr *Tracker, g *planGraph) (finish func())

func runGraph(prop string, mix opMix) func(s *Sim) {
	return func(s *Sim) {
		wl := s.WL
		cfg := graphCfg{Writers: wl.Range(1, 3)}
		if wl.Chance(1, 5) {
			cfg.Restarts = 1
		}
		if wl.Chance(1, 4) {
			cfg.DelayPM = wl.Range(1, 20)
		} else {
			wl.Raw()
		}
		s.DelayPM = cfg.DelayPM
		in := s.NewInstance("a", "")
		if s.Failed() {
			return
		}
		tr := in.Track()
		if s.Failed() {
			return
		}
		g := &planGraph{root: in.RootID, typ: map[string]string{in.RootID: "device"}, edges: map[[2]string]bool{{"root", in.RootID}: true},
			clock: time.Date(1999, 12, 1, 0, 0, 0, 0, time.UTC).UnixNano()}
		g.nodes = []string{in.RootID}

		for w := 0; w < cfg.Writers; w++ {
			nc, err := nats.Connect(in.URL(), nats.Name(fmt.Sprintf("w%d", w)))
			if err != nil {
				s.Fail(prop, "harness", "connect: %v", err)
				return
			}
			s.cleanup = append(s.cleanup, nc.Close)
			s.NewActor(fmt.Sprintf("w%d", w), nc)
		}
		restartWindow := false // a restart may overlap requests: unanswered requests are then legitimate
		var sample []string
		nOps := 0
		liveness := func(a *Actor, what string, err error) {
			if err == nil || restartWindow || cfg.DelayPM > 0 {
				return
			}
			if errors.Is(err, nats.ErrTimeout) || errors.Is(err, nats.ErrNoResponders) {
				s.Fail("C05", "unanswered", "%s by %s was not answered (%v) although the instance was up and nothing was delayed", what, a.Name, err)
			}
		}
		addOp := func(name string, fn func(a *Actor) error) {
			a := s.Actors[wl.Draw(len(s.Actors))]
			if nOps < 14 {
				sample = append(sample, a.Name+": "+name)
			}
			nOps++
			a.Add(name, func() { liveness(a, name, fn(a)) })
		}
		farTimes := wl.Chance(1, 6)
		newRoot := wl.Chance(1, 3)
		nFar := 0
		nextT := func() time.Time {
			g.clock += int64(1 + wl.Draw(1000))
			return time.Unix(0, g.clock)
		}
		pickNode := func() string { return g.nodes[wl.Draw(len(g.nodes))] }
		pickEdge := func() ([2]string, bool) {
			var es [][2]string
			for _, n := range g.nodes {
				for _, p := range g.parentsOf(n) {
					if p != "root" {
						es = append(es, [2]string{p, n})
					}
				}
			}
			if len(es) == 0 {
				return [2]string{}, false
			}
			return es[wl.Draw(len(es))], true
		}
		newNode := func() string {
			id := fmt.Sprintf("n%d", len(g.nodes))
			g.nodes = append(g.nodes, id)
			g.typ[id] = nodeTypes[wl.Draw(len(nodeTypes))]
			return id
		}
		somePoints := func(n int) data.Points {
			var pts data.Points
			for i := 0; i < n; i++ {
				p := genPointBody(wl, true)
				p.Type = []string{"value", "description", "a", "b", "ab", ""}[wl.Draw(6)] // "": an untyped point is an identity of its own, not a wildcard
				p.Key = []string{"", "0", "1", "a"}[wl.Draw(4)]
				p.Time = nextT()
				if farTimes && wl.Chance(1, 8) {
					// a device with a garbage clock: years outside what fits 64-bit nanoseconds (the store keeps the wrapped
					// count; the checksum, the hash and the answers have to agree on it all the same)
					y := []int{2300, 2555, 9000, 1600, 1066, 2}[wl.Draw(6)]
					p.Time = time.Date(y, time.Month(1+wl.Draw(12)), 1+wl.Draw(28), wl.Draw(24), wl.Draw(60), wl.Draw(60), wl.Draw(1000000000), time.UTC)
					// an identity of its own: which of two such stamps is the newer one (as submitted, or as kept) is not what
					// these runs are about
					nFar++
					p.Type, p.Key = "far", fmt.Sprint(nFar)
				}
				pts = append(pts, p)
			}
			return pts
		}
		lastNodePts := map[string]data.Points{}
		lastEdgePts := map[[2]string]data.Points{}
		// one run in twelve starts with a chain of 17–26 nodes below the root: walks to the top have no depth limit
		if wl.Chance(1, 12) {
			parent := g.root
			for i, n := 0, 17+wl.Draw(10); i < n; i++ {
				id := newNode()
				g.edges[[2]string{parent, id}] = true
				typ, par := g.typ[id], parent
				addOp(fmt.Sprintf("chain %s under %s", id, par), func(a *Actor) error {
					return client.SendNode(a.Nc, data.NodeEdge{ID: id, Parent: par, Type: typ}, "chain")
				})
				parent = id
			}
		}
		tab := mix.table()
		for wl.More(14) {
			switch weighted(wl, tab) {
			case 0: // create a node under an existing node: SendNode (points, then edge) or a raw edge batch
				parent := pickNode()
				id := newNode()
				if wl.Chance(1, 10) {
					// a placement without a parent (what the client helpers produce for an empty parent): an edge like
					// any other, with a hash of its own, on top of which subtrees, mirrors and moves work as usual
					parent = "none"
					in.TopLevel = append(in.TopLevel, id)
				}
				g.edges[[2]string{parent, id}] = true
				typ := g.typ[id]
				if wl.Chance(1, 2) {
					ne := data.NodeEdge{ID: id, Parent: parent, Type: typ, Points: somePoints(wl.Draw(3))}
					origin := origins[wl.Draw(len(origins))]
					addOp(fmt.Sprintf("SendNode %s under %s (%d pts)", id, parent, len(ne.Points)), func(a *Actor) error {
						return client.SendNode(a.Nc, ne, origin)
					})
				} else {
					t := nextT()
					addOp(fmt.Sprintf("edge-first %s under %s", id, parent), func(a *Actor) error {
						return client.SendEdgePoints(a.Nc, id, parent, data.Points{
							{Type: data.PointTypeTombstone, Time: t}, {Type: data.PointTypeNodeType, Text: typ, Time: t}}, true)
					})
				}
			case 1: // populate below a node that is attached only later (edge above a populated subtree)
				top := newNode()
				kid := newNode()
				g.edges[[2]string{top, kid}] = true
				parent := pickNode()
				for parent == top || parent == kid {
					parent = g.root
				}
				g.edges[[2]string{parent, top}] = true
				t1, t2 := nextT(), nextT()
				pts := somePoints(1 + wl.Draw(2))
				ktyp, ttyp := g.typ[kid], g.typ[top]
				addOp(fmt.Sprintf("child %s under detached %s", kid, top), func(a *Actor) error {
					if err := client.SendNodePoints(a.Nc, kid, pts, true); err != nil {
						return err
					}
					return client.SendEdgePoints(a.Nc, kid, top, data.Points{
						{Type: data.PointTypeTombstone, Time: t1}, {Type: data.PointTypeNodeType, Text: ktyp, Time: t1}}, true)
				})
				addOp(fmt.Sprintf("attach %s (populated) under %s", top, parent), func(a *Actor) error {
					return client.SendEdgePoints(a.Nc, top, parent, data.Points{
						{Type: data.PointTypeTombstone, Time: t2}, {Type: data.PointTypeNodeType, Text: ttyp, Time: t2}}, true)
				})
			case 2: // node points
				n := pickNode()
				pts := somePoints(1 + wl.Draw(3))
				ack := wl.Chance(3, 4)
				if prev, ok := lastNodePts[n]; ok && wl.Chance(1, 6) {
					// a tie: same identity and exactly the time stamp of an earlier write to this node, different content
					// (the store accepts it and overwrites; the hash has to follow)
					q := prev[wl.Draw(len(prev))]
					pts[0].Type, pts[0].Key, pts[0].Time = q.Type, q.Key, q.Time
				}
				lastNodePts[n] = append(data.Points(nil), pts...)
				addOp(fmt.Sprintf("points %s [%s]", n, shortPts(pts)), func(a *Actor) error {
					return client.SendNodePoints(a.Nc, n, append(data.Points(nil), pts...), ack)
				})
			case 3: // edge points on an existing edge
				e, ok := pickEdge()
				if !ok {
					continue
				}
				pts := somePoints(1 + wl.Draw(2))
				if prev, ok := lastEdgePts[e]; ok && wl.Chance(1, 6) {
					q := prev[wl.Draw(len(prev))]
					pts[0].Type, pts[0].Key, pts[0].Time = q.Type, q.Key, q.Time
				}
				if wl.Chance(1, 6) {
					// a point of type tombstone under another key is an ordinary point: only key "0" says whether the edge is
					// deleted (value 0, so that no reading of it can mean "deleted")
					pts[0].Type, pts[0].Key, pts[0].Value = data.PointTypeTombstone, []string{"1", "a"}[wl.Draw(2)], 0
				}
				lastEdgePts[e] = append(data.Points(nil), pts...)
				addOp(fmt.Sprintf("edge points %s/%s [%s]", e[0], e[1], shortPts(pts)), func(a *Actor) error {
					return client.SendEdgePoints(a.Nc, e[1], e[0], append(data.Points(nil), pts...), true)
				})
			case 4: // mirror under another parent (diamonds arise when both parents share an ancestor)
				n := pickNode()
				p := pickNode()
				if n == g.root || g.isAbove(n, p, map[string]bool{}) || g.edges[[2]string{p, n}] {
					continue
				}
				g.edges[[2]string{p, n}] = true
				addOp(fmt.Sprintf("MirrorNode %s under %s", n, p), func(a *Actor) error { return client.MirrorNode(a.Nc, n, p, "mir") })
			case 5: // move
				e, ok := pickEdge()
				p := pickNode()
				if !ok || g.isAbove(e[1], p, map[string]bool{}) || g.edges[[2]string{p, e[1]}] {
					continue
				}
				g.edges[[2]string{p, e[1]}] = true
				addOp(fmt.Sprintf("MoveNode %s from %s to %s", e[1], e[0], p), func(a *Actor) error {
					return client.MoveNode(a.Nc, e[1], e[0], p, "mv")
				})
			case 6: // delete: the tombstone is a counter, odd means deleted (1, 3); through the helper or with an explicit stamp
				e, ok := pickEdge()
				if !ok {
					continue
				}
				if wl.Chance(1, 2) {
					addOp(fmt.Sprintf("DeleteNode %s/%s", e[0], e[1]), func(a *Actor) error { return client.DeleteNode(a.Nc, e[1], e[0], "del") })
				} else {
					v := float64(1 + 2*wl.Draw(2))
					addOp(fmt.Sprintf("tombstone=%v %s/%s (now)", v, e[0], e[1]), func(a *Actor) error {
						return client.SendEdgePoint(a.Nc, e[1], e[0], data.Point{Type: data.PointTypeTombstone, Value: v, Origin: "del"}, true)
					})
				}
			case 7: // undelete: even counts (0, 2, 4), stamped now so that it is newer than an earlier delete
				e, ok := pickEdge()
				if !ok {
					continue
				}
				v := float64(2 * wl.Draw(3))
				addOp(fmt.Sprintf("tombstone=%v %s/%s (now)", v, e[0], e[1]), func(a *Actor) error {
					return client.SendEdgePoint(a.Nc, e[1], e[0], data.Point{Type: data.PointTypeTombstone, Value: v}, true)
				})
			case 8: // stale write: older than anything written before
				n := pickNode()
				pts := somePoints(1)
				pts[0].Time = time.Unix(0, g.clock-int64(1e9)-int64(wl.Draw(1000)))
				addOp(fmt.Sprintf("stale points %s [%s]", n, shortPts(pts)), func(a *Actor) error {
					return client.SendNodePoints(a.Nc, n, append(data.Points(nil), pts...), true)
				})
			case 9: // writes that must be refused
				kind := wl.Draw(7)
				switch kind {
				case 6: // the reserved word "root" as the node of an edge below a node of the tree: closes a cycle through the top
					if !fenceOpen("cycle") {
						continue
					}
					p := pickNode()
					t := nextT()
					addOp(fmt.Sprintf("REFUSED edge that puts \"root\" under %s", p), func(a *Actor) error {
						tr.Process()
						if !tr.Ref.IsAncestorAny("root", p) {
							return nil // not (yet) attached to the tree by what the store has accepted so far: not sent
						}
						return client.SendEdgePoints(a.Nc, "root", p, data.Points{{Type: data.PointTypeTombstone, Time: t},
							{Type: data.PointTypeNodeType, Text: "device", Time: t}}, true)
					})
				case 5: // a move that must be refused (below one of its own descendants): the request as a whole leaves no trace
					if !fenceOpen("cycle") {
						continue
					}
					e, ok := pickEdge()
					if !ok {
						continue
					}
					var below []string
					for _, m := range g.nodes {
						if m != e[1] && g.isAbove(e[1], m, map[string]bool{}) {
							below = append(below, m)
						}
					}
					if len(below) == 0 {
						continue
					}
					np := below[wl.Draw(len(below))]
					addOp(fmt.Sprintf("REFUSED MoveNode %s from %s under its descendant %s", e[1], e[0], np), func(a *Actor) error {
						accepted := func() int {
							tr.Process()
							n := 0
							for _, w := range tr.Writes {
								// the move's own writes: edge points of this node under the old or the new parent (every edge
								// write of the workload is acknowledged, so none of an earlier operation can still be under way)
								if w.From == a.Name && w.Refused == "" && w.Edge && w.NodeID == e[1] && (w.Parent == e[0] || w.Parent == np) {
									n++
								}
							}
							return n
						}
						before := accepted()
						// operations of other writers may not have been handled yet: judge only if, by the writes the store
						// has accepted so far, the new parent already is a descendant (edges are never removed, so it stays one)
						mustRefuse := tr.Ref.IsAncestorAny(e[1], np)
						err := client.MoveNode(a.Nc, e[1], e[0], np, "mv")
						if !mustRefuse || cfg.DelayPM > 0 {
							// with injected stalls an earlier acknowledged write of this connection may have timed out and
							// still be under way, so the writes accepted meanwhile cannot be told apart: not judged
							return err
						}
						if errors.Is(err, nats.ErrTimeout) || errors.Is(err, nats.ErrNoResponders) {
							return err
						}
						if err == nil {
							s.Fail("C05", "refused-not-error", "MoveNode(%s, %s -> %s) puts the node below its own descendant but returned no error", e[1], e[0], np)
						} else if after := accepted(); after != before {
							s.Fail("C05", "refused-trace", "MoveNode(%s, %s -> %s) was refused (%v) but %d write(s) it made on the way were accepted: a refused move must leave everything unchanged",
								e[1], e[0], np, err, after-before)
						}
						return nil
					})
				case 0: // tombstone aimed at the root
					t := nextT()
					v := float64(1 + wl.Draw(2))
					if wl.Chance(1, 2) {
						addOp("REFUSED delete root", func(a *Actor) error {
							return client.SendEdgePoint(a.Nc, g.root, "root", data.Point{Type: data.PointTypeTombstone, Value: v, Time: t}, true)
						})
						break
					}
					// the deleting tombstone inside a batch: what counts is the point the batch would leave behind (per
					// identity the newest, on a tie the later one), wherever it stands and whichever spelling of the key it uses
					del := data.Point{Type: data.PointTypeTombstone, Key: []string{"", "0"}[wl.Draw(2)], Value: v, Time: t}
					live := data.Point{Type: data.PointTypeTombstone, Key: []string{"", "0"}[wl.Draw(2)], Value: 0}
					var pts data.Points
					refused := true
					switch wl.Draw(4) {
					case 0: // live first and older
						live.Time = t.Add(-time.Duration(1 + wl.Draw(5)))
						pts = data.Points{live, del}
					case 1: // same instant, the deleting one later in the batch
						live.Time = t
						pts = data.Points{live, del}
					case 2: // the deleting one first in the batch but newer
						live.Time = t.Add(-time.Duration(1 + wl.Draw(5)))
						pts = data.Points{del, live}
					case 3: // control: the batch leaves the root live (newer live tombstone), a valid write
						live.Time = t.Add(time.Duration(1 + wl.Draw(5)))
						g.clock += 6
						pts = data.Points{del, live}
						refused = false
					}
					if wl.Chance(1, 2) {
						pts = append(data.Points{{Type: "role", Text: "r", Time: nextT()}}, pts...)
					}
					name := "REFUSED delete root inside a batch"
					if !refused {
						name = "root tombstone batch that leaves the root live"
					}
					addOp(fmt.Sprintf("%s [%s]", name, shortPts(pts)), func(a *Actor) error {
						return client.SendEdgePoints(a.Nc, g.root, "root", append(data.Points(nil), pts...), true)
					})
				case 1: // self edge
					n := pickNode()
					t := nextT()
					typ := g.typ[n]
					addOp("REFUSED self edge "+n, func(a *Actor) error {
						return client.SendEdgePoints(a.Nc, n, n, data.Points{{Type: data.PointTypeTombstone, Time: t},
							{Type: data.PointTypeNodeType, Text: typ, Time: t}}, true)
					})
				case 2: // an edge that closes a cycle (through live or deleted edges)
					if !fenceOpen("cycle") {
						continue
					}
					n := pickNode()
					var below []string
					for _, m := range g.nodes {
						if m != n && g.isAbove(n, m, map[string]bool{}) {
							below = append(below, m)
						}
					}
					if len(below) == 0 {
						continue
					}
					p := below[wl.Draw(len(below))]
					t := nextT()
					typ := g.typ[n]
					addOp(fmt.Sprintf("REFUSED cycle: %s under its descendant %s", n, p), func(a *Actor) error {
						return client.SendEdgePoints(a.Nc, n, p, data.Points{{Type: data.PointTypeTombstone, Time: t},
							{Type: data.PointTypeNodeType, Text: typ, Time: t}}, true)
					})
				case 3: // first edge without a node type (under a node, or aimed at the pseudo-parent "root")
					p := pickNode()
					if wl.Chance(1, 3) {
						p = "root"
					}
					id := fmt.Sprintf("ghost%d", nOps)
					t := nextT()
					addOp(fmt.Sprintf("REFUSED first edge without type %s under %s", id, p), func(a *Actor) error {
						return client.SendEdgePoint(a.Nc, id, p, data.Point{Type: data.PointTypeTombstone, Time: t}, true)
					})
				case 4: // mirror of a node onto itself through the helper
					n := pickNode()
					addOp("REFUSED MirrorNode onto itself "+n, func(a *Actor) error { return client.MirrorNode(a.Nc, n, n, "") })
				}
			case 10: // verification request: nothing to repair
				addOp("storeVerify", func(a *Actor) error {
					err := client.AdminStoreVerify(a.Nc)
					if err != nil && !errors.Is(err, nats.ErrTimeout) && !errors.Is(err, nats.ErrNoResponders) {
						s.Fail("C03", "verify-error", "admin.storeVerify answered %v", err)
					}
					return err
				})
			case 11: // NaN somewhere in a batch (node or edge points)
				if !fenceOpen("nan") {
					continue
				}
				pts := somePoints(1 + wl.Draw(3))
				pts[wl.Draw(len(pts))].Value = math.NaN()
				if e, ok := pickEdge(); ok && wl.Chance(1, 3) {
					addOp(fmt.Sprintf("REFUSED NaN edge points %s/%s", e[0], e[1]), func(a *Actor) error {
						return client.SendEdgePoints(a.Nc, e[1], e[0], append(data.Points(nil), pts...), true)
					})
				} else {
					n := pickNode()
					addOp("REFUSED NaN node points "+n, func(a *Actor) error {
						return client.SendNodePoints(a.Nc, n, append(data.Points(nil), pts...), true)
					})
				}
			}
		}
		// one run in five of the C03 and C06 engines lets the handlers overlap (no restarts in those runs)
		if (prop == "C03" || prop == "C06") && graphBurst != nil && wl.Chance(1, 5) {
			cfg.Burst = true
			cfg.Restarts = 0
		}
		s.SampleText = fmt.Sprintf("cfg=%+v ops=%d: %s", cfg, nOps, strings.Join(sample, " | "))

		restartsLeft := cfg.Restarts
		s.FaultEvents = func() []SimEvent {
			if restartsLeft > 0 && s.workloadQuiescent() && !s.workloadDone() {
				return []SimEvent{{Key: "fault restart-store", Do: func() {
					restartsLeft--
					s.Fault("store-restart")
					restartWindow = true
					in.Stop()
					in.Start()
					restartWindow = false
					tr.markDirty()
				}}}
			}
			return nil
		}
		burstOn := false
		s.OnQuiescent = append(s.OnQuiescent, func() {
			if burstOn {
				return // the monitors' own requests would park at the yield points; the state is checked when the overlap ends
			}
			tr.CheckState(false)
			if l := s.TakeLog(); strings.Contains(l, "Hash failed") {
				s.Fail("C03", "verify-found-mismatch", "store verification logged a hash mismatch: %s", firstLineWith(l, "Hash failed"))
			}
		})
		var finishBurst func()
		if cfg.Burst {
			finishBurst = graphBurst(s, in, tr, g)
			burstOn = true
		}
		s.Run()
		if finishBurst != nil {
			finishBurst()
			burstOn = false
		}
		if s.Failed() {
			return
		}
		s.Settle()
		tr.CheckState(true)
		if s.Failed() {
			return
		}
		// a final verification must find nothing to repair, and maintenance must change nothing
		var verr error
		s.TakeLog()
		s.Call(func() { verr = client.AdminStoreVerify(in.Obs) })
		if l := s.TakeLog(); verr != nil || strings.Contains(l, "Hash failed") {
			s.Fail("C03", "verify-found-mismatch", "final store verification: err=%v log=%s", verr, firstLineWith(l, "Hash failed"))
			return
		}
		before, _ := in.Dump()
		s.Call(func() { verr = client.AdminStoreMaint(in.Obs) })
		after, _ := in.Dump()
		if verr != nil {
			s.Fail("C03", "maint-error", "admin.storeMaint answered %v", verr)
			return
		}
		if len(before) == len(after) {
			for i := range before {
				if before[i].Hash != after[i].Hash {
					s.Fail("C03", "maint-changed", "store maintenance changed the hash of %s/%s (%#x -> %#x): there was something to repair",
						before[i].Parent, before[i].ID, before[i].Hash, after[i].Hash)
					return
				}
			}
		}
		if !newRoot || cfg.DelayPM > 0 {
			return
		}
		// The last thing one run in three does is to give the instance a second root: a legal write, and the only one that
		// changes the instance's idea of its root.  What the tree looks like afterwards belongs to no model here (the
		// monitors are off); that the instance goes on answering, after everything it refused before, does.
		tr.Muted.Store(true)
		var e [4]error
		s.Call(func() {
			t := time.Now()
			e[0] = client.SendEdgePoints(in.Obs, "zroot", "root", data.Points{{Type: data.PointTypeTombstone, Time: t},
				{Type: data.PointTypeNodeType, Text: "device", Time: t}}, true)
			e[1] = client.SendNodePoint(in.Obs, "zroot", data.Point{Type: data.PointTypeDescription, Text: "second root", Time: t}, true)
			e[2] = client.SendEdgePoint(in.Obs, "zroot", "root", data.Point{Type: "role", Text: "r", Time: t}, true)
			_, e[3] = client.GetNodes(in.Obs, "root", "all", "", false)
		})
		for i, err := range e {
			if err != nil && (errors.Is(err, nats.ErrTimeout) || errors.Is(err, nats.ErrNoResponders)) {
				s.Fail("C05", "unanswered-after-new-root", "%s was not answered (%v) once a second node had been placed under \"root\": the instance was up, nothing was delayed",
					[]string{"the edge write that creates the second root", "a node-point write to the new root", "an edge-point write to the new root", "a query for the root"}[i], err)
				return
			}
		}
	}
}

func firstLineWith(l, sub string) string {
	for _, ln := range strings.Split(l, "\n") {
		if strings.Contains(ln, sub) {
			return ln
		}
	}
	return ""
}

func init() {
	register(&Engine{Prop: "C03", Run: runGraph("C03", mixC03)})
	register(&Engine{Prop: "C05", Run: runGraph("C05", mixC05)})
	register(&Engine{Prop: "C06", Run: runGraph("C06", mixC06)})
}
