#!/bin/bash
# Generates the build overlay from the installed go1.26.8 GOROOT: the runtime's two sources of randomness that the
# simulator owns -- the poll order of select and the seeds/offsets of map iteration -- become functions of
# runtime.SimSeed (0 = stock behaviour). Fails loudly if a pattern is not found.
set -e
here=$(cd "$(dirname "$0")" && pwd)
G=$(GOTOOLCHAIN=local go1.26.8 env GOROOT)/src
out="$here/gen"
rm -rf "$out"; mkdir -p "$out"
grep -q 'j := cheaprandn(uint32(norder + 1))' "$G/runtime/select.go" || { echo "overlay: select.go pattern not found"; exit 1; }
sed 's/j := cheaprandn(uint32(norder + 1))/j := simSelectRand(uint32(norder+1), sys.GetCallerPC())/' "$G/runtime/select.go" > "$out/select.go"
grep -q 'simSelectRand' "$out/select.go"
grep -q '^func maps_rand() uint64 {' "$G/runtime/rand.go" || { echo "overlay: rand.go pattern not found"; exit 1; }
python3 - "$G/runtime/rand.go" "$out/rand.go" <<'PY'
import sys
s=open(sys.argv[1]).read()
old="func maps_rand() uint64 {\n\treturn rand()\n}"
assert old in s, "maps_rand body changed"
s=s.replace(old,"func maps_rand() uint64 {\n\tif SimSeed != 0 {\n\t\treturn simMix(SimSeed)\n\t}\n\treturn rand()\n}")
open(sys.argv[2],"w").write(s)
PY
cat > "$out/zsim.go" <<'GO'
package runtime

// SimSeed, when non-zero, makes the poll order of select statements and the seeds and start offsets of map
// iteration a deterministic function of its value (verification overlay, /verif/overlay). Zero = stock behaviour.
var SimSeed uint64

func simMix(x uint64) uint64 {
	x ^= x >> 33
	x *= 0xff51afd7ed558ccd
	x ^= x >> 33
	x *= 0xc4ceb9fe1a85ec53
	x ^= x >> 33
	return x
}

func simSelectRand(n uint32, pc uintptr) uint32 {
	if SimSeed == 0 {
		return cheaprandn(n)
	}
	return uint32(simMix(SimSeed^uint64(pc)*0x9e3779b97f4a7c15^uint64(n)<<40) % uint64(n))
}
GO
cat > "$here/overlay.json" <<JSON
{"Replace": {"$G/runtime/select.go": "$out/select.go", "$G/runtime/rand.go": "$out/rand.go", "$G/runtime/zsim.go": "$out/zsim.go"}}
JSON
echo "overlay generated in $out"
