package sim

import (
	"encoding/json"
	"fmt"
	"os"
	"runtime"
	"runtime/debug"
	"sort"
	"strconv"
	"strings"
	"testing"
	"testing/synctest"
	"time"
)

// Engine is one property's simulation: it builds the world and the workload
// from s.WL, runs the schedule from s.SCH and evaluates the oracles.
type Engine struct {
	Prop     string
	Run      func(s *Sim)
	NoBubble bool // engines without clocks or goroutines (linksim without time)
	// Sample renders the workload of a run for the evidence file.
	MaxSteps int
}

var engines = map[string]*Engine{}

func register(e *Engine) { engines[e.Prop] = e }

// RunResult is what one execution produced.
type RunResult struct {
	Seed   uint64     `json:"seed"`
	Viol   *Violation `json:"violation,omitempty"`
	Stats  RunStats   `json:"stats"`
	WL     []uint64   `json:"wl"`
	SCH    []uint64   `json:"sch"`
	Marks  []int      `json:"-"`
	EvLog  []string   `json:"-"`
	Sample string     `json:"-"`
	Panic  string     `json:"panic,omitempty"`
}

// execute runs one simulation inside a fresh bubble.
func execute(t *testing.T, eng *Engine, seed uint64, wl, sch *Tape) (res RunResult) {
	res.Seed = seed
	// wall-clock watchdog (outside the bubble, real time): a run that does not finish means the code under
	// test hangs or spins; the process exits with status 3 and the driver confirms it with the same seed
	limit := time.Duration(envInt("VERIF_RUN_WALL_S", 60)) * time.Second
	wd := time.AfterFunc(limit, func() {
		fmt.Fprintf(os.Stderr, "WATCHDOG: run with seed %d exceeded %s of wall clock\n", seed, limit)
		if os.Getenv("VERIF_WD_STACKS") != "" {
			buf := make([]byte, 1<<20)
			n := runtime.Stack(buf, true)
			os.Stderr.Write(buf[:n])
		}
		os.Exit(3)
	})
	defer wd.Stop()
	// the garbage collector preempts and reorders runnable goroutines at moments the simulator does not own: keep it
	// off while a run is in progress and collect between runs
	oldGC := debug.SetGCPercent(-1)
	defer func() {
		debug.SetGCPercent(oldGC)
		runtime.GC()
	}()
	body := func(t *testing.T) {
		s := NewSim(t, eng.Prop, seed, wl, sch)
		s.noBubble = eng.NoBubble
		if eng.MaxSteps > 0 {
			s.MaxSteps = eng.MaxSteps
		}
		func() {
			defer func() {
				if r := recover(); r != nil {
					s.Fail(eng.Prop, "panic", "panic on the scheduler goroutine: %v\n%s", r, debug.Stack())
				}
			}()
			eng.Run(s)
		}()
		func() {
			defer func() {
				if r := recover(); r != nil {
					s.Logf("teardown panic: %v", r)
				}
			}()
			s.Teardown()
		}()
		s.Close()
		res.Viol = s.Viol
		res.Stats = s.Stats
		res.EvLog = s.EvLog
		res.Sample = s.SampleText
	}
	func() {
		defer func() {
			if r := recover(); r != nil {
				// synctest panics when the bubble's root returns while goroutines are
				// still blocked; that is a leak of the code under test, not a verdict.
				res.Panic = fmt.Sprint(r)
				if os.Getenv("VERIF_WD_STACKS") != "" {
					buf := make([]byte, 1<<20)
					n := runtime.Stack(buf, true)
					os.Stderr.Write(buf[:n])
					os.Exit(4)
				}
			}
		}()
		if eng.NoBubble {
			body(t)
		} else if raceBuild {
			// with the race detector a reported race makes synctest.Test call FailNow on its caller: give it a subtest
			// of its own so that only that goroutine ends and the worker goes on to report the violation
			t.Run("bubble", func(t *testing.T) {
				defer func() {
					if r := recover(); r != nil { // the end-of-bubble leak panic is raised on this goroutine
						res.Panic = fmt.Sprint(r)
					}
				}()
				synctest.Test(t, body)
			})
		} else {
			synctest.Test(t, body)
		}
	}()
	res.WL = wl.Rec
	res.SCH = sch.Rec
	res.Marks = wl.Marks
	return res
}

func runSeed(t *testing.T, eng *Engine, seed uint64) RunResult {
	return execute(t, eng, seed, NewTape(mix(seed, 1)), NewTape(mix(seed, 2)))
}

func runTapes(t *testing.T, eng *Engine, seed uint64, wl, sch []uint64) RunResult {
	return execute(t, eng, seed, ReplayTape(wl), ReplayTape(sch))
}

// ReplayFile is the on-disk replay format.
type ReplayFile struct {
	Property  string     `json:"property"`
	Seed      uint64     `json:"seed"`
	Minimised bool       `json:"minimised"`
	WL        []uint64   `json:"wl"`
	SCH       []uint64   `json:"sch"`
	Violation *Violation `json:"violation"`
	Repro     string     `json:"reproduced"`
	Schedule  []string   `json:"schedule,omitempty"`
	Workload  string     `json:"workload,omitempty"`
	OrigWL    []uint64   `json:"orig_wl,omitempty"`
	OrigSCH   []uint64   `json:"orig_sch,omitempty"`
	Config    string     `json:"config,omitempty"`
}

func envInt(name string, def int) int {
	if v := os.Getenv(name); v != "" {
		if n, err := strconv.Atoi(v); err == nil {
			return n
		}
	}
	return def
}

func envU64(name string, def uint64) uint64 {
	if v := os.Getenv(name); v != "" {
		if n, err := strconv.ParseUint(v, 10, 64); err == nil {
			return n
		}
		if n, err := strconv.ParseInt(v, 10, 64); err == nil {
			return uint64(n)
		}
	}
	return def
}

// WorkerOut is what a worker process reports to the driver.
type WorkerOut struct {
	Property   string            `json:"property"`
	Worker     int               `json:"worker"`
	Runs       int               `json:"runs"`
	FirstSeed  uint64            `json:"first_seed"`
	WallS      float64           `json:"wall_s"`
	SimS       float64           `json:"sim_s"`
	Steps      int               `json:"steps"`
	Faults     map[string]int    `json:"faults"`
	Probes     map[string]int    `json:"probes"`
	SchedHash  []uint64          `json:"sched_hashes"`
	StateHash  []uint64          `json:"state_hashes"`
	NonTrivial []uint64          `json:"nontrivial_hashes"`
	Samples    []string          `json:"samples"`
	Violations []string          `json:"violations"`
	Leaks      int               `json:"bubble_leaks"`
	LeakMsgs   map[string]int    `json:"leak_msgs,omitempty"`
	LogHashes  map[string]uint64 `json:"log_hashes,omitempty"`
	Known      []string          `json:"known,omitempty"`
}

// TestEngine is the worker entry point.
//
//	VERIF_PROP     property id
//	VERIF_SEED     base seed
//	VERIF_WORKER   worker index (seeds are derived from base seed, worker, run index)
//	VERIF_RUNS     maximum number of runs
//	VERIF_BUDGET_S wall clock budget in seconds
//	VERIF_OUT      output directory (w<k>.json, replay files)
//	VERIF_REPLAY   replay file: run it and report
//	VERIF_LOGHASH  record the event-log hash of every run (determinism self-test)
func TestEngine(t *testing.T) {
	prop := os.Getenv("VERIF_PROP")
	if prop == "" {
		t.Skip("VERIF_PROP not set")
	}
	debug.SetMaxStack(256 << 20) // unbounded recursion of the code under test dies fast instead of eating 1 GB
	eng := engines[prop]
	if eng == nil {
		t.Fatalf("no engine for %s", prop)
	}
	outDir := os.Getenv("VERIF_OUT")
	if outDir == "" {
		outDir = os.TempDir()
	}
	if rp := os.Getenv("VERIF_REPLAY"); rp != "" {
		replayMain(t, eng, rp)
		return
	}
	base := envU64("VERIF_SEED", 1)
	worker := envInt("VERIF_WORKER", 0)
	maxRuns := envInt("VERIF_RUNS", 100)
	budget := time.Duration(envInt("VERIF_BUDGET_S", 30)) * time.Second
	wantLogHash := os.Getenv("VERIF_LOGHASH") != ""
	start := time.Now()
	out := WorkerOut{Property: prop, Worker: worker, Faults: map[string]int{}, Probes: map[string]int{},
		LeakMsgs: map[string]int{}}
	if wantLogHash {
		out.LogHashes = map[string]uint64{}
	}
	sched := map[uint64]bool{}
	state := map[uint64]bool{}
	nontriv := map[uint64]bool{}
	progress := fmt.Sprintf("%s/w%d.progress", outDir, worker)
	for i := 0; i < maxRuns && time.Since(start) < budget; i++ {
		seed := mix(mix(base, uint64(worker)+1000), uint64(i))
		if rs := envU64("VERIF_RUNSEED", 0); rs != 0 {
			seed = rs
		}
		if i == 0 {
			out.FirstSeed = seed
		}
		_ = os.WriteFile(progress, []byte(fmt.Sprintf("%d\n", seed)), 0o644)
		res := runSeed(t, eng, seed)
		out.Runs++
		out.SimS += res.Stats.SimTime.Seconds()
		out.Steps += res.Stats.Steps
		for k, v := range res.Stats.Faults {
			out.Faults[k] += v
		}
		for k, v := range res.Stats.Probes {
			out.Probes[k] += v
		}
		if res.Panic != "" {
			out.Leaks++
			msg := res.Panic
			if len(msg) > 120 {
				msg = msg[:120]
			}
			out.LeakMsgs[msg]++
		}
		sched[res.Stats.SchedHash] = true
		state[res.Stats.StateHash] = true
		nfaults := 0
		for k, v := range res.Stats.Faults {
			if k != "" {
				nfaults += v
			}
		}
		if res.Stats.Reorders > 0 || nfaults > 0 || res.Stats.NonTrivial {
			nontriv[mix(res.Stats.SchedHash, res.Stats.StateHash)] = true
		}
		if wantLogHash {
			out.LogHashes[strconv.FormatUint(seed, 10)] = res.Stats.LogHash
		}
		if dl := os.Getenv("VERIF_DUMPLOG"); dl != "" {
			_ = os.WriteFile(fmt.Sprintf("%s.%d", dl, seed), []byte(strings.Join(res.EvLog, "\n")+"\n"), 0o644)
		}
		if len(out.Samples) < 3 && res.Sample != "" {
			out.Samples = append(out.Samples, fmt.Sprintf("seed=%d steps=%d reorders=%d faults=%v :: %s", seed, res.Stats.Steps,
				res.Stats.Reorders, res.Stats.Faults, res.Sample))
		}
		if res.Viol != nil {
			path := reportViolation(t, eng, outDir, res)
			out.Violations = append(out.Violations, path)
			break // one violation per worker is enough; the driver prints it
		}
	}
	_ = os.Remove(progress)
	out.WallS = time.Since(start).Seconds()
	out.SchedHash = keysOf(sched)
	out.StateHash = keysOf(state)
	out.NonTrivial = keysOf(nontriv)
	b, _ := json.Marshal(out)
	if err := os.WriteFile(fmt.Sprintf("%s/w%d.json", outDir, worker), b, 0o644); err != nil {
		t.Fatalf("write worker output: %v", err)
	}
}

func keysOf(m map[uint64]bool) []uint64 {
	o := make([]uint64, 0, len(m))
	for k := range m {
		o = append(o, k)
	}
	sort.Slice(o, func(i, j int) bool { return o[i] < o[j] })
	return o
}

// reportViolation minimises, confirms by replay and writes the replay file.
func reportViolation(t *testing.T, eng *Engine, outDir string, res RunResult) string {
	rf := ReplayFile{Property: res.Viol.Prop, Seed: res.Seed, WL: res.WL, SCH: res.SCH, Violation: res.Viol}
	class := res.Viol.Class()
	// confirm the recorded tapes reproduce
	ok := 0
	for i := 0; i < 2; i++ {
		r := runTapes(t, eng, res.Seed, res.WL, res.SCH)
		if r.Viol != nil && r.Viol.Class() == class {
			ok++
		}
	}
	rf.Repro = fmt.Sprintf("original tapes %d/2", ok)
	if res.Viol.Clause == "data-race" {
		rf.Repro = "race reports are emitted once per process: confirmed by the driver in fresh processes"
	}
	best := res
	if ok == 2 && os.Getenv("VERIF_NOSHRINK") == "" {
		wl, sch, r := shrink(t, eng, res.Seed, res.WL, res.SCH, class, 45*time.Second)
		// the minimised tapes must reproduce 3/3
		n := 0
		for i := 0; i < 3; i++ {
			rr := runTapes(t, eng, res.Seed, wl, sch)
			if rr.Viol != nil && rr.Viol.Class() == class {
				n++
				r = rr
			}
		}
		if n == 3 {
			rf.Minimised = true
			rf.OrigWL, rf.OrigSCH = res.WL, res.SCH
			rf.WL, rf.SCH = wl, sch
			rf.Violation = r.Viol
			rf.Repro += fmt.Sprintf("; minimised tapes 3/3 (wl %d->%d values, sch %d->%d values)", len(res.WL), len(wl), len(res.SCH), len(sch))
			best = r
		} else {
			rf.Repro += fmt.Sprintf("; minimised tapes only %d/3, keeping original", n)
		}
	}
	rf.Schedule = best.EvLog
	if len(rf.Schedule) > 400 {
		rf.Schedule = append([]string{fmt.Sprintf("... %d earlier events omitted ...", len(rf.Schedule)-400)}, rf.Schedule[len(rf.Schedule)-400:]...)
	}
	rf.Workload = best.Sample
	path := fmt.Sprintf("%s/replay-%s-%d.json", outDir, strings.ReplaceAll(class, "/", "-"), res.Seed)
	b, _ := json.MarshalIndent(rf, "", " ")
	_ = os.WriteFile(path, b, 0o644)
	return path
}

func replayMain(t *testing.T, eng *Engine, path string) {
	b, err := os.ReadFile(path)
	if err != nil {
		t.Fatalf("read replay: %v", err)
	}
	var rf ReplayFile
	if err := json.Unmarshal(b, &rf); err != nil {
		t.Fatalf("parse replay: %v", err)
	}
	res := runTapes(t, eng, rf.Seed, rf.WL, rf.SCH)
	out := map[string]any{"replay": path, "violation": res.Viol, "expected": rf.Violation, "steps": res.Stats.Steps}
	if os.Getenv("VERIF_REPLAY_LOG") != "" {
		out["schedule"] = res.EvLog
	}
	jb, _ := json.MarshalIndent(out, "", " ")
	fmt.Println(string(jb))
	rp := os.Getenv("VERIF_REPLAY_OUT")
	if rp != "" {
		_ = os.WriteFile(rp, jb, 0o644)
	}
	if res.Viol != nil {
		fmt.Printf("REPLAY-VIOLATION property=%s clause=%s\n", res.Viol.Prop, res.Viol.Clause)
	} else {
		fmt.Println("REPLAY-CLEAN")
	}
}

// isKnownClass: VERIF_KNOWN lists the violation classes (property/clause) of open known findings.
func isKnownClass(c string) bool {
	for _, k := range strings.Split(os.Getenv("VERIF_KNOWN"), ",") {
		if strings.TrimSpace(k) == c && c != "" {
			return true
		}
	}
	return false
}
