#!/bin/bash
# Generates the build overlay from the installed go1.26.8 GOROOT: the runtime's two sources of randomness that the
# simulator owns -- the poll order of select and the seeds/offsets of map iteration -- become functions of
# runtime.SimSeed (0 = stock behaviour), and the key of the map hash function is a constant. Fails loudly if a pattern is not found.
set -e
here=$(cd "$(dirname "$0")" && pwd)
G=$(GOTOOLCHAIN=local go1.26.8 env GOROOT)/src
out="$here/gen"
rm -rf "$out"; mkdir -p "$out"
grep -q 'j := cheaprandn(uint32(norder + 1))' "$G/runtime/select.go" || { echo "overlay: select.go pattern not found"; exit 1; }
sed 's/j := cheaprandn(uint32(norder + 1))/j := simSelectRand(uint32(norder+1), sys.GetCallerPC())/' "$G/runtime/select.go" > "$out/select.go"
grep -q 'simSelectRand' "$out/select.go"
grep -q '^func maps_rand() uint64 {' "$G/runtime/rand.go" || { echo "overlay: rand.go pattern not found"; exit 1; }
python3 - "$G/runtime/rand.go" "$out/rand.go" <<'PY'
import sys
s=open(sys.argv[1]).read()
old="func maps_rand() uint64 {\n\treturn rand()\n}"
assert old in s, "maps_rand body changed"
s=s.replace(old,"func maps_rand() uint64 {\n\tif SimSeed != 0 {\n\t\treturn simMix(SimSeed)\n\t}\n\treturn rand()\n}")
open(sys.argv[2],"w").write(s)
PY
# the hash function of maps is keyed with per-process random data (alginit): a map with more than one group of slots
# iterates in an order that depends on it, so a run replayed in another process could take another order.  The overlay
# (which only the simulation binary is built with) fixes the key.
grep -q 'hashkey\[i\] = uintptr(bootstrapRand())' "$G/runtime/alg.go" && grep -q 'key\[i\] = bootstrapRand()' "$G/runtime/alg.go" || { echo "overlay: alg.go pattern not found"; exit 1; }
sed -e 's/hashkey\[i\] = uintptr(bootstrapRand())/hashkey[i] = uintptr(simFixedKey(i))/' -e 's/key\[i\] = bootstrapRand()/key[i] = simFixedKey(i)/' "$G/runtime/alg.go" > "$out/alg.go"
test "$(grep -c simFixedKey "$out/alg.go")" = 2
# The seed of a map that starts small (at most one group of slots) is drawn by compiler-generated code straight from
# runtime.rand, not through maps.rand; it begins to matter when the map outgrows the group and its entries are spread by
# hash.  At exactly that point growToTable re-hashes every entry anyway: the overlay draws a fresh seed through
# maps.rand there, and every assign function that calls it recomputes the hash of the key it is inserting.
python3 - "$G/internal/runtime/maps" "$out" <<'PY'
import re, sys
src, out = sys.argv[1], sys.argv[2]
sites = 0
for name in ["map.go", "runtime.go", "runtime_fast32.go", "runtime_fast64.go", "runtime_faststr.go"]:
    lines = open(f"{src}/{name}").read().split("\n")
    res, lasthash = [], None
    for l in lines:
        m = re.match(r"^\thash := (typ\.Hasher\(.*, m\.seed\))$", l)
        if m:
            lasthash = m.group(1)
        if l.startswith("func "):
            lasthash = None
        res.append(l)
        if l == "func (m *Map) growToTable(typ *abi.MapType) {":
            res.append("\tm.seed = uintptr(rand()) // verification overlay")
        if l.strip() == "m.growToTable(typ)":
            assert lasthash, f"{name}: growToTable call without a preceding hash computation"
            res.append(l.replace("m.growToTable(typ)", "hash = " + lasthash + " // verification overlay: the seed changed"))
            sites += 1
    open(f"{out}/maps_{name}", "w").write("\n".join(res))
assert sites == 7, f"expected 7 growToTable call sites, found {sites}"
PY
grep -q 'verification overlay' "$out/maps_map.go"
cat > "$out/zsim.go" <<'GO'
package runtime

// SimSeed, when non-zero, makes the poll order of select statements and the seeds and start offsets of map
// iteration a deterministic function of its value (verification overlay, /verif/overlay). Zero = stock behaviour.
var SimSeed uint64

func simMix(x uint64) uint64 {
	x ^= x >> 33
	x *= 0xff51afd7ed558ccd
	x ^= x >> 33
	x *= 0xc4ceb9fe1a85ec53
	x ^= x >> 33
	return x
}

// simFixedKey replaces the per-process random key of the map hash function.
func simFixedKey(i int) uint64 {
	return simMix(uint64(i)+0x5eed5eed) | 1
}

func simSelectRand(n uint32, pc uintptr) uint32 {
	if SimSeed == 0 {
		return cheaprandn(n)
	}
	return uint32(simMix(SimSeed^uint64(pc)*0x9e3779b97f4a7c15^uint64(n)<<40) % uint64(n))
}
GO
cat > "$here/overlay.json" <<JSON
{"Replace": {"$G/runtime/select.go": "$out/select.go", "$G/runtime/rand.go": "$out/rand.go", "$G/runtime/zsim.go": "$out/zsim.go", "$G/runtime/alg.go": "$out/alg.go", "$G/internal/runtime/maps/map.go": "$out/maps_map.go", "$G/internal/runtime/maps/runtime.go": "$out/maps_runtime.go", "$G/internal/runtime/maps/runtime_fast32.go": "$out/maps_runtime_fast32.go", "$G/internal/runtime/maps/runtime_fast64.go": "$out/maps_runtime_fast64.go", "$G/internal/runtime/maps/runtime_faststr.go": "$out/maps_runtime_faststr.go"}}
JSON
echo "overlay generated in $out"
