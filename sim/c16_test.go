package sim

import (
	"bytes"
	"fmt"
	"io"
	"strings"

	"github.com/simpleiot/simpleiot/client"
)

// C16 — COBS framing delivers each frame intact for any read chunking.
//
// linksim: a scripted io.ReadWriteCloser whose Read returns tape-chosen chunk
// sizes (down to one byte, frames split anywhere, several frames per read) of
// the byte stream the real CobsWrapper.Write produced, optionally with one
// damage event (overwrite, drop or insert 1..4 bytes at a tape-chosen offset).
// No clock is involved; the "schedule" is the segmentation, the fault is the
// damage.

type scriptDev struct {
	stream []byte
	pos    int
	chunks func(remaining, max int) int
	wbuf   bytes.Buffer
	reads  int
}

func (d *scriptDev) Read(p []byte) (int, error) {
	if d.pos >= len(d.stream) {
		return 0, io.EOF
	}
	if len(p) == 0 {
		return 0, nil
	}
	rem := len(d.stream) - d.pos
	n := d.chunks(rem, len(p))
	if n < 1 {
		n = 1
	}
	if n > rem {
		n = rem
	}
	if n > len(p) {
		n = len(p)
	}
	copy(p, d.stream[d.pos:d.pos+n])
	d.pos += n
	d.reads++
	return n, nil
}

func (d *scriptDev) Write(p []byte) (int, error) { return d.wbuf.Write(p) }
func (d *scriptDev) Close() error                { return nil }

func genFrame(t *Tape, maxLen int) []byte {
	var n int
	switch t.Draw(8) {
	case 0:
		n = 1
	case 1:
		n = maxLen
	case 2:
		n = 254 // exactly one full block
	case 3:
		n = 255
	case 4:
		n = maxLen - t.Draw(8) // close to the largest frame
	default:
		n = 1 + t.Draw(maxLen)
	}
	if n > maxLen {
		n = maxLen
	}
	if n < 1 {
		n = 1
	}
	b := make([]byte, n)
	mode := t.Draw(5)
	for i := range b {
		switch mode {
		case 0: // all zeros
			b[i] = 0
		case 1: // no zeros
			b[i] = byte(1 + (i*7+n)%255)
		case 2: // zeros at the edges
			b[i] = byte(1 + i%200)
			if i == 0 || i == n-1 {
				b[i] = 0
			}
		default:
			b[i] = byte(t.Raw())
			if t.Chance(1, 5) {
				b[i] = 0
			}
		}
	}
	fence254(b)
	return b
}

// fence254: open finding F-C16-encode-254-run: the third-party encoder loses the zero that follows a run of exactly
// 254*k non-zero bytes; such frames are not generated while the finding is open
func fence254(b []byte) {
	if fenceOpen("cobs-254-run") {
		return
	}
	run := 0
	for i := range b {
		if b[i] != 0 {
			run++
			continue
		}
		if run > 0 && run%254 == 0 {
			b[i-1] = 0
		}
		run = 0
	}
}

func runC16Frames(s *Sim) {
	wl := s.WL
	maxLen := []int{4, 16, 64, 300}[wl.Draw(4)]
	nFrames := wl.Range(1, 6)
	var frames [][]byte
	dev := &scriptDev{}
	w := client.NewCobsWrapper(dev, 600)
	var starts []int // start offset of each frame in the encoded stream
	for i := 0; i < nFrames; i++ {
		f := genFrame(wl, maxLen)
		frames = append(frames, f)
		starts = append(starts, dev.wbuf.Len())
		if _, err := w.Write(f); err != nil {
			s.Fail("C16", "write", "CobsWrapper.Write: %v", err)
			return
		}
	}
	stream := append([]byte(nil), dev.wbuf.Bytes()...)
	ends := make([]int, nFrames)
	for i := range starts {
		if i+1 < nFrames {
			ends[i] = starts[i+1]
		} else {
			ends[i] = len(stream)
		}
	}

	// one damage event (or none)
	damage := "none"
	dmgStart, dmgEnd := -1, -1 // region of the *damaged* stream that is not original bytes / where bytes are missing
	touched := make([]bool, nFrames)
	if wl.Chance(1, 2) {
		off := wl.Draw(len(stream))
		n := 1 + wl.Draw(4)
		kind := wl.Draw(3)
		if nFrames > 1 && wl.Chance(1, 5) {
			// aimed at the two delimiters between two neighbouring frames (terminator and leading delimiter): both
			// frames run into each other, which is how a run longer than the reader's limits comes about
			i := wl.Draw(nFrames - 1)
			off, n = ends[i]-1, 2
			kind = wl.Draw(2) // overwrite or drop
		}
		if kind != 2 && off+n > len(stream) {
			n = len(stream) - off
		}
		for i := range starts {
			if kind == 2 {
				touched[i] = starts[i] < off && off < ends[i]
			} else {
				touched[i] = starts[i] < off+n && off < ends[i]
			}
		}
		switch kind {
		case 0: // overwrite
			if off+n > len(stream) {
				n = len(stream) - off
			}
			for i := 0; i < n; i++ {
				stream[off+i] = byte(wl.Raw())
				if stream[off+i] == 0 && wl.Chance(1, 2) {
					stream[off+i] = 0x55
				}
			}
			damage = fmt.Sprintf("overwrite %d bytes at %d", n, off)
			dmgStart, dmgEnd = off, off+n
		case 1: // drop
			if off+n > len(stream) {
				n = len(stream) - off
			}
			stream = append(stream[:off:off], stream[off+n:]...)
			damage = fmt.Sprintf("drop %d bytes at %d", n, off)
			dmgStart, dmgEnd = off, off
			for i := range starts {
				if starts[i] >= off+n {
					starts[i] -= n
				} else if starts[i] > off {
					starts[i] = -1 // its leading delimiter is gone
				}
				if ends[i] >= off+n {
					ends[i] -= n
				} else if ends[i] > off {
					ends[i] = off
				}
			}
		case 2: // insert
			ins := make([]byte, n)
			for i := range ins {
				ins[i] = byte(wl.Raw())
			}
			stream = append(stream[:off:off], append(ins, stream[off:]...)...)
			damage = fmt.Sprintf("insert %d bytes at %d", n, off)
			dmgStart, dmgEnd = off, off+n
			for i := range starts {
				if starts[i] >= off {
					starts[i] += n
				}
				if ends[i] > off {
					ends[i] += n
				}
			}
		}
		s.Fault(strings.Fields(damage)[0])
	} else {
		wl.Raw()
		wl.Raw()
		wl.Raw()
	}

	// the reader: segmentation from the schedule tape
	mode := s.SCH.Draw(4)
	rd := &scriptDev{stream: stream}
	rd.chunks = func(rem, max int) int {
		switch mode {
		case 0:
			return 1
		case 1:
			return rem
		case 2:
			return 1 + s.SCH.Draw(3)
		default:
			return 1 + s.SCH.Draw(rem)
		}
	}
	r := client.NewCobsWrapper(rd, 600)
	bufLen := []int{602, 700, 4096, 600}[s.SCH.Draw(4)] // 600: the caller's buffer is exactly the configured maximum, as the serial client's is
	var got [][]byte
	nErr := 0
	for i := 0; i < 10*len(stream)+20; i++ {
		buf := make([]byte, bufLen)
		n, err := r.Read(buf)
		if err == io.EOF {
			break
		}
		if err != nil {
			nErr++
			continue
		}
		got = append(got, append([]byte(nil), buf[:n]...))
	}
	s.SampleText = fmt.Sprintf("frames=%d lens=%v damage=%s segmentation-mode=%d reads=%d buf=%d", nFrames, lens(frames), damage, mode, rd.reads, bufLen)
	s.Stats.NonTrivial = rd.reads > 1
	s.MixState(uint64(len(stream))<<32 ^ uint64(rd.reads)<<8 ^ uint64(mode))
	s.noteSched(fmt.Sprintf("%d/%d/%s", rd.reads, mode, damage))

	if dmgStart < 0 {
		if len(got) != len(frames) {
			s.Fail("C16", "frames", "wrote %d frames %v, read back %d frames %v (%d errors) with segmentation mode %d over %d reads",
				len(frames), lens(frames), len(got), lens(got), nErr, mode, rd.reads)
			return
		}
		for i := range frames {
			if !bytes.Equal(frames[i], got[i]) {
				s.Fail("C16", "content", "frame %d differs: wrote %x, read %x", i, trunc(frames[i]), trunc(got[i]))
				return
			}
		}
		if nErr > 0 {
			s.Fail("C16", "spurious-error", "undamaged stream: all frames delivered but %d errors reported", nErr)
		}
		return
	}
	// with damage: frames that end before the damage come first, intact; frames that begin at or after the first
	// delimiter following the damage come last, intact; anything in between
	var prefix, suffix [][]byte
	delim := -1
	for i := dmgEnd; i < len(stream); i++ {
		if stream[i] == 0 {
			delim = i
			break
		}
	}
	for i := range frames {
		if touched[i] {
			continue
		}
		if starts[i] >= 0 && ends[i] <= dmgStart {
			prefix = append(prefix, frames[i])
		} else if delim >= 0 && starts[i] >= delim && starts[i] >= dmgEnd {
			suffix = append(suffix, frames[i])
		}
	}
	if len(got) < len(prefix)+len(suffix) {
		s.Fail("C16", "damage-lost", "%s: %d frames lie wholly before the damage and %d begin after the next delimiter, but only %d frames were delivered (%v of %v)",
			damage, len(prefix), len(suffix), len(got), lens(got), lens(frames))
		return
	}
	for i := range prefix {
		if !bytes.Equal(prefix[i], got[i]) {
			s.Fail("C16", "damage-prefix", "%s: frame %d ends before the damage but was delivered as %x instead of %x", damage, i, trunc(got[i]), trunc(prefix[i]))
			return
		}
	}
	for i := range suffix {
		g := got[len(got)-len(suffix)+i]
		if !bytes.Equal(suffix[i], g) {
			s.Fail("C16", "damage-suffix", "%s: a frame that begins after the delimiter following the damage was delivered as %x instead of %x", damage, trunc(g), trunc(suffix[i]))
			return
		}
	}
	// only frames touching the damage may be dropped: every frame none of whose bytes (delimiters included) was
	// overwritten or lost, and into which nothing was inserted, is delivered intact, in order (extra or mangled
	// deliveries made of the damaged bytes may lie in between)
	gi := 0
	for i := range frames {
		if touched[i] {
			continue
		}
		found := false
		for gi < len(got) {
			if bytes.Equal(got[gi], frames[i]) {
				found = true
				gi++
				break
			}
			gi++
		}
		if !found {
			s.Fail("C16", "damage-untouched-lost", "%s: frame %d (%d bytes, stream offsets %d..%d) is not touched by the damage but was not delivered intact in order; delivered lengths %v of written %v",
				damage, i, len(frames[i]), starts[i], ends[i], lens(got), lens(frames))
			return
		}
	}
	s.Probe("damage-runs")
}

func lens(f [][]byte) []int {
	o := make([]int, len(f))
	for i := range f {
		o[i] = len(f[i])
	}
	return o
}

func trunc(b []byte) []byte {
	if len(b) > 24 {
		return b[:24]
	}
	return b
}

func runC16(s *Sim) {
	runC16Frames(s)
	// the draw comes last, so that the tapes of the single-writer part read as before
	if !s.Failed() && s.WL.Chance(1, 8) {
		c16TwoWriters(s)
	}
}

// gateDev is a device whose Write blocks until the schedule lets it through, and which takes the bytes only then (a
// full transmit queue: write(2) copies when there is room).  The serial client writes through one wrapper from its run
// loop and from a bus callback; which of two blocked writes the device serves first is the schedule.
type gateReq struct {
	p    []byte
	done chan struct{}
}
type gateDev struct{ req chan *gateReq }

func (g *gateDev) Write(p []byte) (int, error) {
	r := &gateReq{p: p, done: make(chan struct{})}
	g.req <- r
	<-r.done
	return len(p), nil
}
func (g *gateDev) Read([]byte) (int, error) { return 0, io.EOF }
func (g *gateDev) Close() error             { return nil }

// two writers, one wrapper: every frame arrives once, intact, and each writer's frames in the order it wrote them
func c16TwoWriters(s *Sim) {
	wl := s.WL
	maxLen := []int{4, 16, 64, 300}[wl.Draw(4)]
	var frames [2][][]byte
	for w := range frames {
		for i, n := 0, wl.Range(1, 4); i < n; i++ {
			f := genFrame(wl, maxLen)
			for len(f) < 2 {
				f = append(f, 1)
			}
			f[0], f[1] = byte(0xA0+w), byte(i+1) // frames are told apart by their first two bytes
			fence254(f)
			frames[w] = append(frames[w], f)
		}
	}
	dev := &gateDev{req: make(chan *gateReq)}
	cw := client.NewCobsWrapper(dev, 600)
	var goCh [2]chan []byte
	var resCh [2]chan error
	for w := 0; w < 2; w++ {
		w := w
		goCh[w], resCh[w] = make(chan []byte), make(chan error)
		go func() {
			for f := range goCh[w] {
				_, err := cw.Write(f)
				resCh[w] <- err
			}
		}()
	}
	defer func() {
		close(goCh[0])
		close(goCh[1])
	}()
	var wire []byte
	var inDev [2]*gateReq
	idx := [2]int{}
	var order []string
	// await: writer w is running (alone); it either reaches the device or returns from Write
	await := func(w int) bool {
		select {
		case r := <-dev.req:
			inDev[w] = r
		case err := <-resCh[w]:
			inDev[w] = nil
			if err != nil {
				s.Fail("C16", "write", "CobsWrapper.Write with two writers: %v", err)
				return false
			}
		}
		return true
	}
	for {
		type act struct {
			start bool
			w     int
		}
		var acts []act
		for w := 0; w < 2; w++ {
			if inDev[w] != nil {
				acts = append(acts, act{false, w})
			} else if idx[w] < len(frames[w]) {
				acts = append(acts, act{true, w})
			}
		}
		if len(acts) == 0 {
			break
		}
		a := acts[wl.Draw(len(acts))]
		if a.start {
			if inDev[1-a.w] != nil {
				s.Probe("a write begins while another is blocked in the device")
			}
			goCh[a.w] <- frames[a.w][idx[a.w]]
			idx[a.w]++
			order = append(order, fmt.Sprintf("w%d+", a.w))
		} else {
			r := inDev[a.w]
			wire = append(wire, r.p...) // the device takes the bytes now
			order = append(order, fmt.Sprintf("w%d.", a.w))
			close(r.done)
		}
		if !await(a.w) {
			return
		}
	}
	// read the wire back through a wrapper of its own, in tape-chosen chunks
	rd := &scriptDev{stream: wire, chunks: func(rem, max int) int { return 1 + wl.Draw(40) }}
	rw := client.NewCobsWrapper(rd, 600)
	what := fmt.Sprintf("two goroutines wrote frames of %v and %v bytes through one wrapper (begin +, served by the device .: %s)", lens(frames[0]), lens(frames[1]), strings.Join(order, " "))
	var got [][]byte
	for len(got) < 64 {
		buf := make([]byte, 700)
		n, err := rw.Read(buf)
		if err == io.EOF {
			break
		}
		if err != nil {
			s.Fail("C16", "two-writers", "%s; reading the wire back gives an error although no byte was damaged: %v", what, err)
			return
		}
		got = append(got, append([]byte(nil), buf[:n]...))
	}
	next := [2]int{}
	for _, g := range got {
		w := -1
		if len(g) >= 2 && (g[0] == 0xA0 || g[0] == 0xA1) {
			w = int(g[0] - 0xA0)
		}
		if w < 0 || next[w] >= len(frames[w]) || !bytes.Equal(g, frames[w][next[w]]) {
			s.Fail("C16", "two-writers", "%s; frame %x (%d bytes) read back from the wire is not the next frame of either writer: a frame was lost, repeated or mixed", what, trunc(g), len(g))
			return
		}
		next[w]++
	}
	if next[0] != len(frames[0]) || next[1] != len(frames[1]) {
		s.Fail("C16", "two-writers", "%s; only %d and %d of them came out of the wire", what, next[0], next[1])
		return
	}
	s.Probe("two-writer runs")
}

func init() { register(&Engine{Prop: "C16", Run: runC16, NoBubble: true}) }
