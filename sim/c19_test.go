package sim

import (
	"errors"
	"fmt"
	"io"
	"math"
	"net"
	"os"
	"strings"
	"sync"
	"time"

	"github.com/simpleiot/simpleiot/modbus"
	"github.com/simpleiot/simpleiot/respreader"
)

// C19 — Modbus client, server and transports agree end to end.
//
// linksim inside a synctest bubble: the real modbus.Client talks to the real
// modbus.Server over a simulated duplex wire; RTU goes through two real
// respreaders (packet boundaries are defined by timeouts on the simulated
// clock), TCP through modbus.NewTCP on a simulated net.Conn.  Per frame the
// tape chooses chunking, inter-chunk delays below the chunk timeout (legal) or
// above it (the frame is split), bit damage (RTU: CRC-detectable classes),
// truncation, loss, and for TCP stale/duplicated responses and foreign
// transaction ids.

type chunk struct {
	delay time.Duration
	data  []byte
}

type wireEnd struct {
	name   string
	in     chan []byte
	rest   []byte
	peer   *wireEnd
	closed chan struct{}
	once   sync.Once
	plan   func(dir string, frame []byte) []chunk
	mu     sync.Mutex
	dl     time.Time
}

func newWire(plan func(dir string, frame []byte) []chunk) (*wireEnd, *wireEnd) {
	a := &wireEnd{name: "client", in: make(chan []byte, 256), closed: make(chan struct{}), plan: plan}
	b := &wireEnd{name: "server", in: make(chan []byte, 256), closed: make(chan struct{}), plan: plan}
	a.peer, b.peer = b, a
	return a, b
}

func (w *wireEnd) Read(p []byte) (int, error) {
	if len(w.rest) == 0 {
		w.mu.Lock()
		dl := w.dl
		w.mu.Unlock()
		var tc <-chan time.Time
		if !dl.IsZero() {
			d := time.Until(dl)
			if d <= 0 {
				return 0, os.ErrDeadlineExceeded
			}
			t := time.NewTimer(d)
			defer t.Stop()
			tc = t.C
		}
		select {
		case c := <-w.in:
			w.rest = c
		case <-w.closed:
			return 0, io.EOF
		case <-tc:
			return 0, os.ErrDeadlineExceeded
		}
	}
	n := copy(p, w.rest)
	w.rest = w.rest[n:]
	return n, nil
}

func (w *wireEnd) Write(p []byte) (int, error) {
	select {
	case <-w.closed:
		return 0, io.ErrClosedPipe
	default:
	}
	frame := append([]byte(nil), p...)
	chunks := w.plan(w.name, frame)
	peer := w.peer
	go func() {
		for _, c := range chunks {
			if c.delay > 0 {
				time.Sleep(c.delay)
			}
			if len(c.data) == 0 {
				continue
			}
			select {
			case peer.in <- c.data:
			case <-peer.closed:
				return
			}
		}
	}()
	return len(p), nil
}

func (w *wireEnd) Close() error {
	w.once.Do(func() { close(w.closed) })
	return nil
}

// net.Conn
type wireAddr struct{}

func (wireAddr) Network() string { return "sim" }
func (wireAddr) String() string  { return "sim" }

func (w *wireEnd) LocalAddr() net.Addr  { return wireAddr{} }
func (w *wireEnd) RemoteAddr() net.Addr { return wireAddr{} }
func (w *wireEnd) SetDeadline(t time.Time) error {
	w.mu.Lock()
	w.dl = t
	w.mu.Unlock()
	return nil
}
func (w *wireEnd) SetReadDeadline(t time.Time) error  { return w.SetDeadline(t) }
func (w *wireEnd) SetWriteDeadline(t time.Time) error { return nil }

// independent CRC-16/MODBUS, used only to recognise a damaged fragment that happens to carry a valid checksum
func crcModbus(b []byte) uint16 {
	crc := uint16(0xffff)
	for _, x := range b {
		crc ^= uint16(x)
		for i := 0; i < 8; i++ {
			if crc&1 != 0 {
				crc = crc>>1 ^ 0xa001
			} else {
				crc >>= 1
			}
		}
	}
	return crc
}

func rtuLooksValid(f []byte) bool {
	if len(f) < 4 {
		return false
	}
	c := crcModbus(f[:len(f)-2])
	return f[len(f)-2] == byte(c) && f[len(f)-1] == byte(c>>8) || f[len(f)-2] == byte(c>>8) && f[len(f)-1] == byte(c)
}

// rtuCRCExact: the last two bytes are the CRC-16/MODBUS of the rest, low byte first (Modbus over serial line, 2.5.1.2).
func rtuCRCExact(f []byte) bool {
	if len(f) < 4 {
		return false
	}
	c := crcModbus(f[:len(f)-2])
	return f[len(f)-2] == byte(c) && f[len(f)-1] == byte(c>>8)
}

const chunkTO = 5 * time.Millisecond

func runC19(s *Sim) {
	wl := s.WL
	tcp := wl.Chance(1, 2)
	id := byte(1 + wl.Draw(247))
	// register map: sparse and dense stretches below address 400
	regs := &modbus.Regs{}
	model := map[int]uint16{}
	nStretch := wl.Range(1, 4)
	for i := 0; i < nStretch; i++ {
		base := wl.Draw(300)
		n := 1 + wl.Draw(100)
		regs.AddReg(base, n)
		for a := base; a < base+n; a++ {
			v := uint16(wl.Raw())
			_ = regs.WriteReg(a, v)
			model[a] = v
		}
	}
	// one run in five holds a stretch long enough for the largest reads a frame can carry, and aims reads at it
	longBase := -1
	if wl.Chance(1, 5) {
		longBase = wl.Draw(200)
		n := 110 + wl.Draw(40)
		regs.AddReg(longBase, n)
		for a := longBase; a < longBase+n; a++ {
			v := uint16(wl.Raw())
			_ = regs.WriteReg(a, v)
			model[a] = v
		}
	}
	var addrs []int
	for a := range model {
		addrs = append(addrs, a)
	}
	sortInts(addrs)

	// fault plan per frame, drawn when the frame is written (client and server alternate, so the draw order is fixed)
	var mu sync.Mutex
	faultNext := map[string]string{} // direction -> fault kind for the next frame
	var lastResp []byte
	unsound := false // a damaged fragment happened to carry a valid checksum: CRC cannot tell, nobody can
	faulted := false
	wireBad := ""
	plan := func(dir string, frame []byte) []chunk {
		mu.Lock()
		defer mu.Unlock()
		if !tcp && wireBad == "" && !rtuCRCExact(frame) {
			// what either end puts on an RTU wire must carry the Modbus checksum (CRC-16, polynomial 0xA001, initial value
			// 0xFFFF, low byte first) computed independently here: a peer that is not this package would drop the frame
			// and the caller would not get the server's values
			wireBad = fmt.Sprintf("the %s put an RTU frame on the wire whose checksum is not the Modbus CRC-16 of its content: % x (CRC-16 of the body is %#04x)",
				dir, frame, crcModbus(frame[:max(len(frame)-2, 0)]))
		}
		kind := faultNext[dir]
		delete(faultNext, dir)
		if kind == "" {
			kind = "clean"
		}
		defer func() {
			if dir == "server" {
				lastResp = append([]byte(nil), frame...)
			}
		}()
		small := func() time.Duration { return time.Duration(s.SCH.Draw(1000)) * time.Microsecond }
		split := func(gapMin, gapMax time.Duration) []chunk {
			n := 2 + s.SCH.Draw(4)
			if n > len(frame) {
				n = len(frame)
			}
			var cs []chunk
			pos := 0
			for i := 0; i < n; i++ {
				end := len(frame)
				if i < n-1 {
					end = pos + 1 + s.SCH.Draw(len(frame)-pos-(n-1-i))
				}
				d := small()
				if i > 0 {
					d = gapMin + time.Duration(s.SCH.Draw(int(gapMax-gapMin)+1))
				}
				cs = append(cs, chunk{d, frame[pos:end]})
				pos = end
			}
			return cs
		}
		switch kind {
		case "clean":
			return []chunk{{small(), frame}}
		case "chunked": // legal for RTU: inter-chunk delay below the chunk timeout
			s.Fault("chunked-legal")
			return split(0, chunkTO-2*time.Millisecond)
		case "gap": // the frame is split by a pause longer than the chunk timeout
			s.Fault("split-by-gap")
			faulted = true
			cs := split(chunkTO+2*time.Millisecond, 50*time.Millisecond)
			pos := 0
			for _, c := range cs { // fragments are what the receiver will see; a fragment with a valid CRC is unjudgeable
				if rtuLooksValid(c.data) && len(c.data) != len(frame) {
					unsound = true
				}
				pos += len(c.data)
			}
			return cs
		case "tcp-split":
			s.Fault("tcp-split")
			faulted = true
			return split(0, 3*time.Millisecond)
		case "bitflip":
			s.Fault("bit-damage")
			faulted = true
			d := append([]byte(nil), frame...)
			nbits := len(d) * 8
			switch s.SCH.Draw(3) {
			case 0:
				flip(d, s.SCH.Draw(nbits))
			case 1:
				i, j := s.SCH.Draw(nbits), s.SCH.Draw(nbits)
				flip(d, i)
				if j != i {
					flip(d, j)
				}
			default:
				l := 2 + s.SCH.Draw(15)
				st := s.SCH.Draw(nbits)
				if st+l > nbits {
					st = nbits - l
				}
				if st < 0 {
					st, l = 0, nbits
				}
				flip(d, st)
				flip(d, st+l-1)
				for k := 1; k < l-1; k++ {
					if s.SCH.Draw(2) == 1 {
						flip(d, st+k)
					}
				}
			}
			return []chunk{{small(), d}}
		case "truncate":
			s.Fault("truncate")
			faulted = true
			k := 1 + s.SCH.Draw(len(frame)-1)
			d := frame[:len(frame)-k]
			if !tcp && rtuLooksValid(d) {
				unsound = true
			}
			return []chunk{{small(), d}}
		case "drop":
			s.Fault("frame-lost")
			faulted = true
			return nil
		case "stale": // TCP: the previous response arrives (again) just before the real one
			s.Fault("stale-response")
			faulted = true
			if len(lastResp) == 0 {
				return []chunk{{small(), frame}}
			}
			return []chunk{{small(), append([]byte(nil), lastResp...)}, {20 * time.Millisecond, frame}}
		case "txid":
			s.Fault("foreign-transaction-id")
			faulted = true
			d := append([]byte(nil), frame...)
			d[s.SCH.Draw(2)] ^= byte(1 + s.SCH.Draw(255))
			return []chunk{{small(), d}}
		}
		return []chunk{{small(), frame}}
	}
	a, b := newWire(plan)
	var client *modbus.Client
	var server *modbus.Server
	if tcp {
		ctr := modbus.NewTCP(a, 500*time.Millisecond, modbus.TransportClient)
		if wl.Chance(1, 3) {
			// a connection that has been in use for a long time: the 16-bit transaction id is about to wrap during this session
			n := 65536*(1+wl.Draw(2)) - 1 - wl.Draw(10)
			for i := 0; i < n; i++ {
				_, _ = ctr.Encode(id, modbus.ReadCoils(0, 1))
			}
			s.Probe("aged TCP connection (transaction id wraps during the session)")
		} else {
			wl.Raw()
			wl.Raw()
		}
		client = modbus.NewClient(ctr, 0)
		server = modbus.NewServer(id, modbus.NewTCP(b, 500*time.Millisecond, modbus.TransportServer), regs, 0)
	} else {
		pa := respreader.NewReadWriteCloser(a, 500*time.Millisecond, chunkTO)
		pb := respreader.NewReadWriteCloser(b, 500*time.Millisecond, chunkTO)
		client = modbus.NewClient(modbus.NewRTU(pa), 0)
		server = modbus.NewServer(id, modbus.NewRTU(pb), regs, 0)
	}
	listenDone := make(chan struct{})
	go server.Listen(func(error) {}, func() {}, func() { close(listenDone) })
	defer func() {
		client.Close()
		a.Close()
		b.Close()
		go server.Close()
		t := time.NewTimer(5 * time.Second)
		select {
		case <-listenDone:
		case <-t.C:
		}
	}()

	kindsRTU := []string{"chunked", "chunked", "gap", "bitflip", "truncate", "drop"}
	kindsTCP := []string{"tcp-split", "truncate", "drop", "stale", "txid"}
	var sample []string
	maxRegs := 97 // what fits the client's 200-byte frame buffer: RTU 1+1+1+2n+2
	if tcp {
		maxRegs = 95 // TCP 7+1+1+2n
	}
	maxBits := 500 // keep a response below the buffer and the walk cheap
	nCalls := wl.Range(3, 12)
	prevFaulted := false
	everFaulted := false
	staleBudget := 0 // after an injected fault up to this many further exchanges may be eaten by late fragments (<= 6 per fault)
	recovering := 0  // clean calls that failed since the last injected fault (stale frames may still sit in the link)
	for c := 0; c < nCalls && !s.Failed(); c++ {
		// choose the operation
		op := wl.Draw(6)
		base := addrs[wl.Draw(len(addrs))]
		cnt := 1
		switch wl.Draw(4) {
		case 0:
			cnt = 1
		case 1:
			cnt = 1 + wl.Draw(20)
		case 2:
			cnt = maxRegs
		default:
			cnt = 1 + wl.Draw(maxRegs)
		}
		bitsTop := false
		if longBase >= 0 && wl.Chance(1, 2) {
			base = longBase + wl.Draw(6)
			cnt = maxRegs - wl.Draw(2)
			bitsTop = true
		}
		uid := id
		if wl.Chance(1, 12) {
			uid = id + 1 // another unit: nobody answers
		}
		// choose faults (mostly none)
		mu.Lock()
		faulted, unsound = false, false
		if wl.Chance(1, 3) {
			ks := kindsRTU
			if tcp {
				ks = kindsTCP
			}
			k := ks[wl.Draw(len(ks))]
			dir := "server" // the response direction
			if wl.Chance(1, 3) && k != "stale" && k != "txid" {
				dir = "client"
			}
			faultNext[dir] = k
		} else {
			wl.Raw()
			wl.Raw()
		}
		mu.Unlock()
		if prevFaulted {
			time.Sleep(300 * time.Millisecond) // let late fragments of the damaged exchange drain, as a real master would
		}
		snapshot := map[int]uint16{}
		for k, v := range model {
			snapshot[k] = v
		}
		var err error
		desc := ""
		wantOK := true
		judge := func(okValues bool, detail string) {
			mu.Lock()
			f, u, wb := faulted, unsound, wireBad
			mu.Unlock()
			if wb != "" {
				s.Fail("C19", "wire-checksum", "%s: %s", desc, wb)
				return
			}
			if uid != id {
				if err == nil {
					s.Fail("C19", "foreign-unit", "%s addressed to unit %d was answered although the server is unit %d", desc, uid, id)
				}
				return
			}
			if u {
				s.Probe("damaged fragment with an accidentally valid checksum: not judged")
				return
			}
			if !f {
				if err != nil && wantOK && (staleBudget > 0 || (tcp && everFaulted)) {
					// TCP: the transport never drains a late or duplicated response, so after one such frame every later
					// exchange reads its predecessor's answer and is rejected by the transaction id check. That is a
					// robustness weakness (noted in DESIGN.md), not a violation of C19 as stated: nothing wrong is believed.
					// leftovers of the damaged exchange (a late or duplicated frame) may cost further exchanges; they must
					// be rejected, not believed, and the link must recover within a few calls
					recovering++
					staleBudget--
					s.Probe("clean call failed while the link recovers from an injected fault")
					return
				}
				if err != nil && wantOK {
					s.Fail("C19", "clean-call-failed", "%s over %s failed without any injected fault (%d calls after the last one): %v", desc, trName(tcp), recovering, err)
					return
				}
				if err == nil {
					recovering = 0
					staleBudget = 0
				}
				if err == nil && !wantOK {
					s.Fail("C19", "missing-register-served", "%s over %s succeeded although it addresses registers the server does not have", desc, trName(tcp))
					return
				}
				if err == nil && !okValues {
					s.Fail("C19", "values", "%s over %s: %s", desc, trName(tcp), detail)
				}
				return
			}
			if err == nil && !okValues {
				s.Fail("C19", "values-under-fault", "%s over %s with an injected link fault returned no error and wrong data: %s", desc, trName(tcp), detail)
			}
		}
		have := func(start, n, div int) bool {
			for i := 0; i < n; i++ {
				if _, ok := model[(start+i)/div]; !ok {
					return false
				}
			}
			return true
		}
		switch op {
		case 0, 1: // read holding / input registers
			var got []uint16
			name := "ReadHoldingRegs"
			if op == 0 {
				got, err = client.ReadHoldingRegs(uid, uint16(base), uint16(cnt))
			} else {
				name = "ReadInputRegs"
				got, err = client.ReadInputRegs(uid, uint16(base), uint16(cnt))
			}
			desc = fmt.Sprintf("%s(addr=%d,count=%d)", name, base, cnt)
			wantOK = have(base, cnt, 1)
			ok, detail := true, ""
			if err == nil {
				if len(got) != cnt {
					ok, detail = false, fmt.Sprintf("returned %d values, asked for %d", len(got), cnt)
				} else {
					for i, v := range got {
						if v != model[base+i] {
							ok, detail = false, fmt.Sprintf("register %d reads %#x, the server holds %#x", base+i, v, model[base+i])
							break
						}
					}
				}
			}
			judge(ok, detail)
		case 2, 3: // read coils / discrete inputs
			n := 1 + wl.Draw(maxBits)
			if wl.Chance(1, 3) {
				n = 1 + wl.Draw(24)
			}
			if bitsTop {
				// the largest bit reads whose response still fits the client's 200-byte frame: TCP 7+1+1+191, RTU 1+1+1+195+2
				n = 195*8 - wl.Draw(10)
				if tcp {
					n = 191*8 - wl.Draw(10)
				}
			}
			start := base*16 + wl.Draw(16)
			var got []bool
			name := "ReadCoils"
			if op == 2 {
				got, err = client.ReadCoils(uid, uint16(start), uint16(n))
			} else {
				name = "ReadDiscreteInputs"
				got, err = client.ReadDiscreteInputs(uid, uint16(start), uint16(n))
			}
			desc = fmt.Sprintf("%s(coil=%d,count=%d)", name, start, n)
			wantOK = have(start, n, 16) && start+n <= 65536
			ok, detail := true, ""
			if err == nil {
				if len(got) != n {
					ok, detail = false, fmt.Sprintf("returned %d values, asked for %d", len(got), n)
				} else {
					for i, v := range got {
						w := model[(start+i)/16]&(1<<uint((start+i)%16)) != 0
						if v != w {
							ok, detail = false, fmt.Sprintf("coil %d reads %v, the server holds %v", start+i, v, w)
							break
						}
					}
				}
			}
			judge(ok, detail)
		case 4: // write single register
			v := uint16(wl.Raw())
			err = client.WriteSingleReg(uid, uint16(base), v)
			desc = fmt.Sprintf("WriteSingleReg(addr=%d,value=%#x)", base, v)
			if err == nil && uid == id {
				model[base] = v
			} else if uid == id {
				// the call failed: the write may or may not have been applied, or may still be on its way (the client can
				// fail early on a stale frame): wait for the link to drain, then take the server's word for this register only
				time.Sleep(400 * time.Millisecond)
				if cur, e := regs.ReadReg(base); e == nil && (cur == v || cur == snapshot[base]) {
					model[base] = cur
				}
			}
			judge(true, "")
		case 5: // write single coil
			coil := base*16 + wl.Draw(16)
			v := wl.Chance(1, 2)
			err = client.WriteSingleCoil(uid, uint16(coil), v)
			desc = fmt.Sprintf("WriteSingleCoil(coil=%d,%v)", coil, v)
			nv := model[base]
			if v {
				nv |= 1 << uint(coil%16)
			} else {
				nv &^= 1 << uint(coil%16)
			}
			if err == nil && uid == id {
				model[base] = nv
			} else if uid == id {
				time.Sleep(400 * time.Millisecond)
				if cur, e := regs.ReadReg(base); e == nil && (cur == nv || cur == snapshot[base]) {
					model[base] = cur
				}
			}
			judge(true, "")
		}
		if len(sample) < 8 {
			sample = append(sample, desc)
		}
		mu.Lock()
		s.noteSched(fmt.Sprintf("%s/%v/%v", desc, faulted, err != nil))
		mu.Unlock()
		// after every call: the server holds exactly the model (a write changed what it addressed and nothing else)
		for _, ad := range addrs {
			cur, e := regs.ReadReg(ad)
			if e != nil || cur != model[ad] {
				s.Fail("C19", "server-registers", "after %s the server's register %d holds %#x, expected %#x", desc, ad, cur, model[ad])
				break
			}
		}
		mu.Lock()
		prevFaulted = faulted
		if faulted {
			staleBudget = 7
			everFaulted = true
		}
		mu.Unlock()
	}
	s.SampleText = fmt.Sprintf("%s unit=%d registers=%d: %s", trName(tcp), id, len(addrs), strings.Join(sample, " | "))
	// conversions are exact inverses in either word order
	for i := 0; i < 8 && !s.Failed(); i++ {
		u := uint32(wl.Raw())
		if r := modbus.RegsToUint32(modbus.Uint32ToRegs([]uint32{u})); len(r) != 1 || r[0] != u {
			s.Fail("C19", "conversion", "Uint32 %#x -> regs -> %v", u, r)
		}
		if r := modbus.RegsToUint32SwapWords(modbus.Uint32ToRegsSwapRegs([]uint32{u})); len(r) != 1 || r[0] != u {
			s.Fail("C19", "conversion", "Uint32 (swapped words) %#x -> regs -> %v", u, r)
		}
		iv := int32(u)
		if r := modbus.RegsToInt32(modbus.Int32ToRegs([]int32{iv})); len(r) != 1 || r[0] != iv {
			s.Fail("C19", "conversion", "Int32 %d -> regs -> %v", iv, r)
		}
		if r := modbus.RegsToInt32SwapWords(modbus.Int32ToRegsSwapWords([]int32{iv})); len(r) != 1 || r[0] != iv {
			s.Fail("C19", "conversion", "Int32 (swapped words) %d -> regs -> %v", iv, r)
		}
		f := math.Float32frombits(u)
		if r := modbus.RegsToFloat32(modbus.Float32ToRegs([]float32{f})); len(r) != 1 || math.Float32bits(r[0]) != u {
			s.Fail("C19", "conversion", "Float32 bits %#x -> regs -> %v", u, r)
		}
		if r := modbus.RegsToFloat32SwapWords(modbus.Float32ToRegsSwapWords([]float32{f})); len(r) != 1 || math.Float32bits(r[0]) != u {
			s.Fail("C19", "conversion", "Float32 (swapped words) bits %#x -> regs -> %v", u, r)
		}
		if r := modbus.RegsToInt16([]uint16{uint16(u)}); len(r) != 1 || uint16(r[0]) != uint16(u) {
			s.Fail("C19", "conversion", "Int16 %#x -> %v", uint16(u), r)
		}
	}
	// ... and for several values per call (a block of registers read in one request), in both directions, with an
	// independent statement of the layout: normal order = high word first, swapped = low word first, words big-endian
	for i := 0; i < 4 && !s.Failed(); i++ {
		n := 2 + wl.Draw(4)
		us := make([]uint32, n)
		is := make([]int32, n)
		fs := make([]float32, n)
		var hiFirst, loFirst []uint16
		for k := range us {
			us[k] = uint32(wl.Raw())
			is[k] = int32(us[k])
			fs[k] = math.Float32frombits(us[k])
			hiFirst = append(hiFirst, uint16(us[k]>>16), uint16(us[k]))
			loFirst = append(loFirst, uint16(us[k]), uint16(us[k]>>16))
		}
		eqRegs := func(a, b []uint16) bool {
			if len(a) != len(b) {
				return false
			}
			for i := range a {
				if a[i] != b[i] {
					return false
				}
			}
			return true
		}
		check := func(what string, regs, want []uint16, back []uint32) {
			if !eqRegs(regs, want) {
				s.Fail("C19", "conversion", "%s of %d values %#x gives registers %#x, the layout is %#x", what, n, us, regs, want)
				return
			}
			if len(back) != n {
				s.Fail("C19", "conversion", "%s: %d values -> registers -> %d values", what, n, len(back))
				return
			}
			for k := range back {
				if back[k] != us[k] {
					s.Fail("C19", "conversion", "%s: value %d of %d: %#x -> registers %#x -> %#x", what, k, n, us[k], regs, back[k])
					return
				}
			}
		}
		bitsOfI := func(v []int32) []uint32 {
			o := make([]uint32, len(v))
			for i := range v {
				o[i] = uint32(v[i])
			}
			return o
		}
		bitsOfF := func(v []float32) []uint32 {
			o := make([]uint32, len(v))
			for i := range v {
				o[i] = math.Float32bits(v[i])
			}
			return o
		}
		check("Uint32", modbus.Uint32ToRegs(us), hiFirst, modbus.RegsToUint32(hiFirst))
		check("Uint32 (swapped words)", modbus.Uint32ToRegsSwapRegs(us), loFirst, modbus.RegsToUint32SwapWords(loFirst))
		check("Int32", modbus.Int32ToRegs(is), hiFirst, bitsOfI(modbus.RegsToInt32(hiFirst)))
		check("Int32 (swapped words)", modbus.Int32ToRegsSwapWords(is), loFirst, bitsOfI(modbus.RegsToInt32SwapWords(loFirst)))
		check("Float32", modbus.Float32ToRegs(fs), hiFirst, bitsOfF(modbus.RegsToFloat32(hiFirst)))
		check("Float32 (swapped words)", modbus.Float32ToRegsSwapWords(fs), loFirst, bitsOfF(modbus.RegsToFloat32SwapWords(loFirst)))
	}
	s.Stats.NonTrivial = true
	s.MixState(uint64(len(addrs))<<32 ^ uint64(id) ^ uint64(nCalls)<<16)
}

func trName(tcp bool) string {
	if tcp {
		return "TCP"
	}
	return "RTU"
}

func sortInts(a []int) {
	for i := 1; i < len(a); i++ {
		for j := i; j > 0 && a[j] < a[j-1]; j-- {
			a[j], a[j-1] = a[j-1], a[j]
		}
	}
}

var _ = errors.New

func init() { register(&Engine{Prop: "C19", Run: runC19}) }
