//go:build race

package sim

import "runtime"

const raceBuild = true

func raceDisable() { runtime.RaceDisable() }
func raceEnable()  { runtime.RaceEnable() }
