package sim

// Tape: the single source of every choice in a run.  A run draws from two
// tapes, one for the workload and the swarm configuration (wl) and one for the
// schedule and fault choices (sch).  In generation mode a tape is backed by a
// splitmix64 PRNG seeded from the run seed; every draw is recorded.  In replay
// mode the recorded values are fed back; past the end every draw is 0, which is
// by construction the most boring choice (FIFO delivery, no fault, no delay).

type Tape struct {
	vals   []uint64 // values to replay
	pos    int
	replay bool
	state  uint64 // splitmix64 state
	Rec    []uint64
	Marks  []int // start offsets (into Rec) of workload records, for structured shrinking
}

// Mark notes that a new workload record starts here.
func (t *Tape) Mark() { t.Marks = append(t.Marks, len(t.Rec)) }

// More reports whether another record follows: a list is generated as
// "while More { record }" so that zeroing one value ends the list and deleting
// a marked record removes exactly one element. The expected length is avg.
func (t *Tape) More(avg int) bool {
	t.Mark()
	return t.Draw(avg+1) != 0
}

func NewTape(seed uint64) *Tape { return &Tape{state: seed} }

func ReplayTape(vals []uint64) *Tape { return &Tape{vals: vals, replay: true} }

func splitmix(x *uint64) uint64 {
	*x += 0x9e3779b97f4a7c15
	z := *x
	z = (z ^ (z >> 30)) * 0xbf58476d1ce4e5b9
	z = (z ^ (z >> 27)) * 0x94d049bb133111eb
	return z ^ (z >> 31)
}

func mix(a, b uint64) uint64 {
	x := a ^ (b * 0x9e3779b97f4a7c15)
	return splitmix(&x)
}

// Raw draws a full 64-bit value.
func (t *Tape) Raw() uint64 {
	var v uint64
	if t.replay {
		if t.pos < len(t.vals) {
			v = t.vals[t.pos]
		}
		t.pos++
	} else {
		v = splitmix(&t.state)
	}
	t.Rec = append(t.Rec, v)
	return v
}

// Draw returns a value in [0,n). n<=1 still consumes a value so that the tape
// layout does not depend on n.
func (t *Tape) Draw(n int) int {
	v := t.Raw()
	if n <= 1 {
		return 0
	}
	r := int(v % uint64(n))
	// record the reduced value so that shrinking works on small numbers
	t.Rec[len(t.Rec)-1] = uint64(r)
	return r
}

// Bool is true with probability num/den.
func (t *Tape) Chance(num, den int) bool { return t.Draw(den) < num }

// Range returns a value in [lo,hi].
func (t *Tape) Range(lo, hi int) int { return lo + t.Draw(hi-lo+1) }

// Pick draws an index biased towards 0: with probability 1/2 index 0, else uniform.
func (t *Tape) Biased(n int) int {
	if n <= 1 {
		t.Raw()
		return 0
	}
	v := t.Draw(2 * n)
	if v < n {
		return 0
	}
	return v - n
}
