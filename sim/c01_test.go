package sim

import (
	"fmt"
	"strings"
	"time"

	"github.com/nats-io/nats.go"
	"github.com/simpleiot/simpleiot/client"
	"github.com/simpleiot/simpleiot/data"
)

// C01 — newest point wins, whatever the delivery order or batching.
//
// Workload: a set of points per identity with distinct timestamps, each
// delivered 1..3 times, cut into batches, spread over 1..4 writer connections,
// as acknowledged requests or plain publishes; nodes are created by an edge
// batch that may arrive before or after the node's points.  Schedule: the
// order in which the bus routes and dispatches across connections, delays,
// clean store restarts.  Oracle: at every workload-quiescent point and at the
// end, reads through nodes.* equal the reference model (newest per identity of
// what the store took in), field by field, one point per identity; the hash
// (C03) and rebroadcast (C06) monitors run as well.

type graphSpec struct {
	Nodes []nodeSpec
}

type nodeSpec struct {
	ID      string
	Type    string
	Parents []string
}

type batch struct {
	Node, Parent string
	Edge         bool
	Pts          data.Points
	Ack          bool
}

func (b batch) String() string {
	tgt := "p." + b.Node
	if b.Edge {
		tgt += "." + b.Parent
	}
	a := "pub"
	if b.Ack {
		a = "req"
	}
	return fmt.Sprintf("%s %s [%s]", a, tgt, shortPts(b.Pts))
}

var nodeTypes = []string{"device", "group", "variable", "x"}

// genGraph draws 1..maxNodes nodes, each with 1..2 parents among the root and
// earlier nodes (so creation batches never form a cycle).
func genGraph(t *Tape, root string, maxNodes int) graphSpec {
	var g graphSpec
	n := t.Range(1, maxNodes)
	for i := 0; i < n; i++ {
		ns := nodeSpec{ID: fmt.Sprintf("n%d", i+1), Type: nodeTypes[t.Draw(len(nodeTypes))]}
		np := 1
		if t.Chance(1, 4) {
			np = 2
		}
		for j := 0; j < np; j++ {
			k := t.Draw(i + 1)
			p := root
			if k > 0 {
				p = g.Nodes[k-1].ID
			}
			dup := false
			for _, q := range ns.Parents {
				if q == p {
					dup = true
				}
			}
			if !dup {
				ns.Parents = append(ns.Parents, p)
			}
		}
		g.Nodes = append(g.Nodes, ns)
	}
	return g
}

type c01Cfg struct {
	Writers   int
	Restarts  int
	DelayPM   int
	NegZero   bool
	MixedKey0 bool
}

func runC01(s *Sim) {
	wl := s.WL
	cfg := c01Cfg{Writers: wl.Range(1, 4), Restarts: 0, DelayPM: 0}
	if wl.Chance(1, 4) {
		cfg.Restarts = wl.Range(1, 2)
	} else {
		wl.Raw()
	}
	if wl.Chance(1, 3) {
		cfg.DelayPM = wl.Range(1, 30)
	} else {
		wl.Raw()
	}
	cfg.NegZero = fenceOpen("negzero")
	s.DelayPM = cfg.DelayPM

	in := s.NewInstance("a", "")
	if s.Failed() {
		return
	}
	tr := in.Track()
	if s.Failed() {
		return
	}
	g := genGraph(wl, in.RootID, 5)

	// targets: every node (node points) and every edge (edge points)
	type target struct {
		node, parent string
		edge         bool
	}
	var targets []target
	targets = append(targets, target{node: in.RootID})
	for _, n := range g.Nodes {
		targets = append(targets, target{node: n.ID})
		for _, p := range n.Parents {
			targets = append(targets, target{node: n.ID, parent: p, edge: true})
		}
	}

	var all []batch
	// creation batches: tombstone 0 + nodeType, the way client.SendNode builds them
	for _, n := range g.Nodes {
		for _, p := range n.Parents {
			tns := genTimeNs(wl)
			all = append(all, batch{Node: n.ID, Parent: p, Edge: true, Ack: wl.Chance(1, 2), Pts: data.Points{
				{Type: data.PointTypeTombstone, Time: time.Unix(0, tns), Value: 0},
				{Type: data.PointTypeNodeType, Text: n.Type, Time: time.Unix(0, tns)},
			}})
		}
	}
	// point sets
	for wl.More(6) {
		tg := targets[wl.Draw(len(targets))]
		nIdent := wl.Range(1, 3)
		var deliveries data.Points
		usedT := map[PKey]map[int64]bool{}
		for i := 0; i < nIdent; i++ {
			typ := genStr(wl)
			key := genKey(wl)
			if tg.edge && wl.Chance(1, 4) {
				typ, key = data.PointTypeTombstone, ""
			}
			if !tg.edge && wl.Chance(1, 8) {
				// type names that mean something on edges are ordinary point types on a node
				typ = []string{data.PointTypeNodeType, data.PointTypeTombstone}[wl.Draw(2)]
			}
			id := PKey{typ, normKey(key)}
			if usedT[id] == nil {
				usedT[id] = map[int64]bool{}
			}
			nPts := wl.Range(1, 4)
			for j := 0; j < nPts; j++ {
				tns := genTimeNs(wl)
				for usedT[id][tns] {
					tns++
				}
				usedT[id][tns] = true
				p := genPointBody(wl, cfg.NegZero)
				p.Type, p.Time = typ, time.Unix(0, tns)
				// the same identity is written both as key "" and as key "0"
				p.Key = key
				if normKey(key) == "0" && wl.Chance(1, 2) {
					if key == "" {
						p.Key = "0"
					} else {
						p.Key = ""
					}
				}
				if tg.edge && typ == data.PointTypeTombstone {
					p.Value = float64(wl.Draw(3))
				}
				mult := 1 + wl.Biased(3)
				for m := 0; m < mult; m++ {
					deliveries = append(deliveries, p)
				}
			}
		}
		// shuffle deliveries, cut into batches
		for i := len(deliveries) - 1; i > 0; i-- {
			j := wl.Draw(i + 1)
			deliveries[i], deliveries[j] = deliveries[j], deliveries[i]
		}
		for len(deliveries) > 0 {
			n := 1 + wl.Draw(4)
			if n > len(deliveries) {
				n = len(deliveries)
			}
			all = append(all, batch{Node: tg.node, Parent: tg.parent, Edge: tg.edge, Ack: wl.Chance(2, 3),
				Pts: append(data.Points(nil), deliveries[:n]...)})
			deliveries = deliveries[n:]
		}
	}
	// paired updates: two identities of one type (two entries of an array, say) written together with one time stamp and
	// one value, and later updated together again: whole batches in which every point changes in the same way
	for i, n := 0, wl.Draw(3); i < n; i++ {
		tg := targets[wl.Draw(len(targets))]
		typ := []string{"enabled", "value", "ab"}[wl.Draw(3)]
		k1, k2 := []string{"0", "1", "a"}[wl.Draw(3)], []string{"2", "3", "b"}[wl.Draw(3)]
		t1 := genTimeNs(wl)
		t2 := t1 + int64(1+wl.Draw(1000))
		if t2 < t1 {
			t1, t2 = t1-2000, t1-1000
		}
		v1, v2 := float64(wl.Draw(3)), float64(3+wl.Draw(3))
		for _, st := range []struct {
			t int64
			v float64
		}{{t1, v1}, {t2, v2}} {
			all = append(all, batch{Node: tg.node, Parent: tg.parent, Edge: tg.edge, Ack: true, Pts: data.Points{
				{Type: typ, Key: k1, Time: time.Unix(0, st.t), Value: st.v}, {Type: typ, Key: k2, Time: time.Unix(0, st.t), Value: st.v}}})
		}
	}
	// global shuffle so that creation and points interleave (points-first / edge-first)
	for i := len(all) - 1; i > 0; i-- {
		j := wl.Draw(i + 1)
		all[i], all[j] = all[j], all[i]
	}

	// writers
	var sample []string
	for w := 0; w < cfg.Writers; w++ {
		nc, err := nats.Connect(in.URL(), nats.Name(fmt.Sprintf("w%d", w)))
		if err != nil {
			s.Fail("C01", "harness", "connect: %v", err)
			return
		}
		s.cleanup = append(s.cleanup, nc.Close)
		s.NewActor(fmt.Sprintf("w%d", w), nc)
	}
	for i, b := range all {
		b := b
		a := s.Actors[wl.Draw(len(s.Actors))]
		if i < 12 {
			sample = append(sample, a.Name+": "+b.String())
		}
		a.Add(b.String(), func() {
			var err error
			pts := append(data.Points(nil), b.Pts...)
			if b.Edge {
				err = client.SendEdgePoints(a.Nc, b.Node, b.Parent, pts, b.Ack)
			} else {
				err = client.SendNodePoints(a.Nc, b.Node, pts, b.Ack)
			}
			_ = err // the tracker compares the reply with the model's verdict
		})
	}
	s.SampleText = fmt.Sprintf("cfg=%+v nodes=%d batches=%d: %s", cfg, len(g.Nodes), len(all), strings.Join(sample, " | "))

	restartsLeft := cfg.Restarts
	s.FaultEvents = func() []SimEvent {
		if restartsLeft > 0 && s.workloadQuiescent() && !s.workloadDone() {
			return []SimEvent{{Key: "fault restart-store", Do: func() {
				restartsLeft--
				s.Fault("store-restart")
				in.Stop()
				in.Start()
				tr.in = in
				tr.markDirty()
			}}}
		}
		return nil
	}
	s.OnQuiescent = append(s.OnQuiescent, func() { tr.CheckState(false) })

	s.Run()
	if s.Failed() {
		return
	}
	s.Settle()
	tr.CheckState(true)
	if s.Failed() {
		return
	}
	// equal content after a clean restart reports equal hashes and content
	if wl.Chance(1, 3) {
		before, _ := in.Dump()
		in.Stop()
		in.Start()
		after, err := in.Dump()
		if err != nil {
			s.Fail("C04", "reopen", "dump after clean restart: %v", err)
			return
		}
		if d := tr.Ref.CompareDump(after); d != "" {
			s.Fail("C01", "content-after-restart", "%s", d)
			return
		}
		if len(before) == len(after) {
			for i := range before {
				if before[i].Hash != after[i].Hash {
					s.Fail("C03", "hash-restart", "hash of %s/%s changed over a clean restart: %#x -> %#x", before[i].Parent, before[i].ID, before[i].Hash, after[i].Hash)
					return
				}
			}
		}
		s.Probe("final-restart")
	}
}

func (tr *Tracker) markDirty() {
	tr.mu.Lock()
	tr.dirty = true
	tr.mu.Unlock()
}

func init() { register(&Engine{Prop: "C01", Run: runC01}) }
