module verif/conform

go 1.21

require github.com/nats-io/nats.go v1.31.0

replace github.com/nats-io/nats.go => /verif/simnats
