//go:build verif

package sim

import (
	"fmt"
	"time"

	"github.com/simpleiot/simpleiot/client"
	"github.com/simpleiot/simpleiot/data"
	"github.com/simpleiot/simpleiot/store"
)

// Burst runs of the graph engines (C03, C06): the whole workload runs with the store's handler goroutines parked at the
// tagged yield points and released one at a time by the scheduler (see c20_test.go), so that the node-point handler, the
// edge-point handler, reads and verification overlap at lock, transaction, query and commit boundaries.  The two write
// streams are each FIFO (one subscription each) and the model's content does not depend on how they interleave: node
// points never decide whether an edge write is accepted and vice versa.  What does depend on the interleaving -- which
// write a publication or a reply belongs to -- is not judged while handlers overlap; instead, after every handler has
// finished, a sequential probe phase writes one fresh point to every node and every edge with all monitors back on:
// the rebroadcast sets (C06), replies, content and hashes (C03) must then be those of the final graph, whatever the
// overlap left behind in caches or half-updated state.
func init() {
	graphBurst = func(s *Sim, in *Instance, tr *Tracker, g *planGraph) (finish func()) {
		b := &burst{s: s, reqCh: make(chan parkReq, 256), noteCh: make(chan string, 256), sites: map[string]int{}}
		tr.CheckReplies, tr.CheckUp = false, false
		s.Fault("overlapping-handlers run")
		store.VerifYield = b.yield
		s.cleanup = append(s.cleanup, func() { store.VerifYield = nil })
		s.FaultEvents = b.events
		return func() {
			b.drainAll()
			s.Settle()
			b.drainAll()
			store.VerifYield = nil
			s.FaultEvents = nil
			for site, n := range b.sites {
				s.Stats.Probes["burst: released at "+site] += n
			}
			if s.Failed() {
				return
			}
			tr.Process()
			tr.CheckReplies, tr.CheckUp = true, true
			s.DelayPM = 0
			g.clock += int64(time.Second)
			n := 0
			for _, id := range g.nodes {
				id := id
				g.clock++
				t := time.Unix(0, g.clock)
				s.Call(func() {
					_ = client.SendNodePoints(in.Obs, id, data.Points{{Type: "probe", Value: float64(n), Time: t, Origin: "probe"}}, true)
				})
				n++
				if s.Failed() {
					return
				}
			}
			for e := range tr.Ref.Edges {
				if e[0] == "root" {
					continue
				}
				e := e
				g.clock++
				t := time.Unix(0, g.clock)
				s.Call(func() {
					_ = client.SendEdgePoints(in.Obs, e[1], e[0], data.Points{{Type: "probe", Text: fmt.Sprint(n), Time: t, Origin: "probe"}}, true)
				})
				n++
				if s.Failed() {
					return
				}
			}
			s.Probe("burst: sequential probe phase completed")
		}
	}
}
