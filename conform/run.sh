#!/bin/bash
# builds the conformance scenarios against real NATS and against simnats and compares their observations
set -e
export GOFLAGS=-mod=mod GOPROXY=off GOSUMDB=off GOTOOLCHAIN=local CGO_ENABLED=0
here=$(cd "$(dirname "$0")" && pwd)
d=$(mktemp -d); trap 'rm -rf "$d"' EXIT
cd "$here"
cp go.mod "$d/sim.mod"; cp real.mod "$d/real.mod"; cp /repo/go.sum "$d/sim.sum"; cp /repo/go.sum "$d/real.sum"
for v in sim real; do
  go1.26.8 build -tags $v -modfile "$d/$v.mod" -o "$d/scen-$v" .
  "$d/scen-$v" > "$d/out-$v.json"
done
if diff "$d/out-real.json" "$d/out-sim.json" > "$d/diff.txt"; then
  echo "conformance: simnats and real NATS (nats.go v1.31.0 + nats-server v2.10.4) agree on all $(grep -c '^ "' "$d/out-real.json") scenarios"
  cp "$d/out-real.json" "$here/last-observations.json"
else
  echo "conformance: DIFFERENCES (left real, right simnats):"; cat "$d/diff.txt"; exit 1
fi
