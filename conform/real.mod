module verif/conform

go 1.21

require (
	github.com/nats-io/nats-server/v2 v2.10.4
	github.com/nats-io/nats.go v1.31.0
)
