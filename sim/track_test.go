package sim

import (
	"fmt"
	"sort"
	"strings"
	"sync"
	"sync/atomic"
	"time"

	"github.com/nats-io/nats.go"
	"github.com/simpleiot/simpleiot/data"
)

// Tracker follows every point write the store takes in (observed at the
// moment the bus hands the message to the store's handler), keeps the
// reference model in step, and records what the handler published while it
// ran.  It carries the two always-on monitors: rebroadcast (C06) and, through
// CheckState, content (C01) and hashes (C03); and the refused-write clauses of
// C05 that are visible on the bus.

type UpMsg struct {
	Subject string
	Pts     data.Points
	Err     error
}

type WriteRec struct {
	N        int
	Step     int
	Subject  string
	NodeID   string
	Parent   string
	Edge     bool
	Pts      data.Points
	Reply    string
	From     string
	Refused  string // reason the model refuses it ("" = accepted)
	Ups      []UpMsg
	Replies  []string
	ExpectUp map[string]bool
	Ambig    bool
	done     bool
}

type Tracker struct {
	in  *Instance
	s   *Sim
	Ref *RefStore

	mu        sync.Mutex
	Muted     atomic.Bool // the monitors are off (a tail of the run that the reference model does not cover)
	cur       map[*nats.Subscription]*WriteRec
	finalized []*WriteRec
	Writes    []*WriteRec
	dirty     bool
	nWrites   int

	// options
	CheckUp      bool // verify the rebroadcast set of every write (C06)
	CheckReplies bool // verify refused <=> error reply, single reply, no trace on the bus (C05)
	// OnWrite is called (scheduler goroutine) for every finalized write.
	OnWrite func(w *WriteRec)
}

// Track attaches a tracker to a running, freshly settled instance.
func (in *Instance) Track() *Tracker {
	s := in.s
	tr := &Tracker{in: in, s: s, cur: map[*nats.Subscription]*WriteRec{}, CheckUp: true, CheckReplies: true}
	edges, err := in.Dump()
	if err != nil {
		s.Fail(s.Prop, "harness", "initial dump failed: %v", err)
		return tr
	}
	root := in.RootID
	for _, e := range edges {
		if e.Parent == "root" {
			root = e.ID
		}
	}
	tr.Ref = NewRefStore(root)
	tr.Ref.Bootstrap(edges)
	s.BusObservers = append(s.BusObservers, tr.observe)
	return tr
}

func isPointSubject(subj string) (node, parent string, edge, ok bool) {
	ch := strings.Split(subj, ".")
	if ch[0] != "p" {
		return
	}
	switch len(ch) {
	case 2:
		return ch[1], "", false, ch[1] != ""
	case 3:
		return ch[1], ch[2], true, ch[1] != "" && ch[2] != ""
	}
	return
}

// observe runs under the world lock.
func (tr *Tracker) observe(ev nats.BusEvent) {
	if tr.Muted.Load() {
		return
	}
	switch ev.Kind {
	case "dispatch":
		if ev.Sub.ConnOf() != tr.in.StoreNc {
			return
		}
		node, parent, edge, ok := isPointSubject(ev.Msg.Subject)
		if !ok {
			return
		}
		tr.mu.Lock()
		defer tr.mu.Unlock()
		tr.nWrites++
		rec := &WriteRec{N: tr.nWrites, Step: tr.s.StepSeq(), Subject: ev.Msg.Subject, NodeID: node, Parent: parent,
			Edge: edge, Reply: ev.Msg.Reply}
		if ev.Msg.From != nil {
			rec.From = ev.Msg.From.Name
		}
		pts, err := data.PbDecodePoints(ev.Msg.Data)
		if err != nil {
			rec.Refused = "undecodable payload"
		} else {
			rec.Pts = pts
			now := time.Now()
			cp := append(data.Points(nil), pts...)
			if edge {
				rec.Refused = tr.Ref.EdgePoints(node, parent, cp, now)
			} else {
				rec.Refused = tr.Ref.NodePoints(node, cp, now)
			}
		}
		if rec.Refused == "" {
			tr.dirty = true
			rec.ExpectUp = map[string]bool{}
			if edge {
				p := parent
				for a := range tr.Ref.AncestorSet(node, false) {
					rec.ExpectUp[fmt.Sprintf("up.%s.%s.%s", a, node, p)] = true
				}
			} else {
				for a := range tr.Ref.AncestorSet(node, true) {
					rec.ExpectUp[fmt.Sprintf("up.%s.%s", a, node)] = true
				}
			}
		}
		if len(tr.cur) > 0 {
			rec.Ambig = true
			for _, o := range tr.cur {
				o.Ambig = true
			}
		}
		tr.cur[ev.Sub] = rec
	case "publish":
		if ev.Conn != tr.in.StoreNc {
			return
		}
		tr.mu.Lock()
		defer tr.mu.Unlock()
		for _, rec := range tr.cur {
			if strings.HasPrefix(ev.Op.Subject, "up.") {
				pts, err := data.PbDecodePoints(ev.Op.Data)
				rec.Ups = append(rec.Ups, UpMsg{Subject: ev.Op.Subject, Pts: pts, Err: err})
			} else if rec.Reply != "" && ev.Op.Subject == rec.Reply {
				rec.Replies = append(rec.Replies, string(ev.Op.Data))
			}
		}
	case "done":
		if ev.Sub.ConnOf() != tr.in.StoreNc {
			return
		}
		tr.mu.Lock()
		defer tr.mu.Unlock()
		if rec := tr.cur[ev.Sub]; rec != nil {
			delete(tr.cur, ev.Sub)
			rec.done = true
			tr.finalized = append(tr.finalized, rec)
		}
	}
}

// Process checks the writes whose handler has returned. Scheduler goroutine.
func (tr *Tracker) Process() {
	tr.mu.Lock()
	fin := tr.finalized
	tr.finalized = nil
	tr.mu.Unlock()
	for _, w := range fin {
		tr.Writes = append(tr.Writes, w)
		tr.checkWrite(w)
		if tr.OnWrite != nil {
			tr.OnWrite(w)
		}
	}
}

func sameBatch(sent, got data.Points) bool {
	if len(sent) != len(got) {
		return false
	}
	for i := range sent {
		a, b := sent[i], got[i]
		if a.Type != b.Type || a.Key != b.Key || a.Value != b.Value || a.Text != b.Text || a.Tombstone != b.Tombstone || a.Origin != b.Origin {
			return false
		}
		if !a.Time.IsZero() && a.Time.UnixNano() != b.Time.UnixNano() {
			return false
		}
	}
	return true
}

func (tr *Tracker) checkWrite(w *WriteRec) {
	s := tr.s
	if w.Refused != "" {
		s.Probe("refused: " + w.Refused)
		tr.markDirty() // a refused write must leave no trace: re-read and compare with the unchanged model
	} else {
		s.Probe("accepted writes")
	}
	what := fmt.Sprintf("write #%d %s from %s (%d points)", w.N, w.Subject, w.From, len(w.Pts))
	if tr.CheckReplies {
		if w.Reply != "" {
			if len(w.Replies) != 1 {
				s.Fail("C05", "one-reply", "%s: %d replies sent to the requester (%q), want exactly 1", what, len(w.Replies), w.Replies)
				return
			}
			if w.Refused != "" && w.Replies[0] == "" {
				s.Fail("C05", "refused-not-error", "%s must be refused (%s) but was acknowledged without error", what, w.Refused)
				return
			}
			if w.Refused == "" && w.Replies[0] != "" {
				s.Fail("C05", "accepted-error", "%s is a valid write but was answered with error %q", what, w.Replies[0])
				return
			}
		}
		if w.Refused != "" && !w.Ambig && len(w.Ups) > 0 {
			s.Fail("C05", "refused-rebroadcast", "%s was refused (%s) but the store published %d message(s) on the rebroadcast stream, first %s",
				what, w.Refused, len(w.Ups), w.Ups[0].Subject)
			return
		}
	}
	if tr.CheckUp && w.Refused == "" && !w.Ambig {
		got := map[string]int{}
		for _, u := range w.Ups {
			got[u.Subject]++
			if !w.ExpectUp[u.Subject] {
				s.Fail("C06", "leak", "%s was republished on %s, which is not the node or one of its ancestors; expected exactly %v",
					what, u.Subject, sortedSet(w.ExpectUp))
				return
			}
			if u.Err != nil || !sameBatch(w.Pts, u.Pts) {
				s.Fail("C06", "payload", "%s: rebroadcast on %s carries different points than were written: sent %v got %v (err %v)",
					what, u.Subject, w.Pts, u.Pts, u.Err)
				return
			}
		}
		for subj := range w.ExpectUp {
			if got[subj] == 0 {
				s.Fail("C06", "missing", "%s was not republished on %s; published on %v", what, subj, sortedCount(got))
				return
			}
		}
		if len(w.ExpectUp) > 3 {
			s.Probe("up-fanout>3")
		}
	}
}

func sortedSet(m map[string]bool) []string {
	var o []string
	for k := range m {
		o = append(o, k)
	}
	sort.Strings(o)
	return o
}

func sortedCount(m map[string]int) []string {
	var o []string
	for k, n := range m {
		o = append(o, fmt.Sprintf("%s x%d", k, n))
	}
	sort.Strings(o)
	return o
}

// CheckState dumps the store and compares it with the model (C01) and checks
// the Merkle equation at every edge (C03). Only call at workload quiescence.
func (tr *Tracker) CheckState(force bool) {
	s := tr.s
	tr.Process()
	if s.Viol != nil {
		return
	}
	tr.mu.Lock()
	dirty := tr.dirty
	tr.dirty = false
	tr.mu.Unlock()
	if !dirty && !force {
		return
	}
	edges, err := tr.in.Dump()
	if s.Viol != nil {
		return
	}
	if err != nil {
		s.Fail("C05", "unreadable", "instance %s cannot be read any more: %v", tr.in.Name, err)
		return
	}
	s.Probe("state-checks")
	if d := tr.Ref.CompareDump(edges); d != "" {
		s.Fail("C01", "content", "%s: %s", tr.in.Name, d)
		return
	}
	if d := CheckHashes(edges); d != "" {
		s.Fail("C03", "merkle", "%s: %s", tr.in.Name, d)
		return
	}
	s.MixState(stateDigest(edges))
}
