package sim

import (
	"database/sql"
	"encoding/json"
	"fmt"
	"net/http"
	"net/http/httptest"
	"net/url"
	"strings"
	"sync"
	"time"

	"github.com/golang-jwt/jwt/v4"
	"github.com/nats-io/nats.go"
	"github.com/simpleiot/simpleiot/api"
	"github.com/simpleiot/simpleiot/client"
	"github.com/simpleiot/simpleiot/data"
)

// C09 — no node access without valid credentials; valid users can log in.
//
// The real HTTP handler tree (api.NewAppHandler) is called in-process against
// the real store on the simulated bus.  Two handler instances are used: one
// only ever sees requests without valid credentials, so *any* bus traffic from
// its connection is a read or write caused by an unauthenticated request; the
// other serves logins and authenticated requests.  The simulated clock decides
// token expiry; user placement histories decide log-in eligibility.

// the configured token: a short word, a UUID (36 characters) or 64 hex digits, chosen per run
var c09Tokens = []string{"s3cr3t-token", "0b9f6c1e-7a44-4d2b-9c3e-5f1a2b3c4d5e", "4f1c9a7e2b8d0635a1c4e7f9b2d6083157ac9e0b3d4f6a8c1e2b5d7f90a3c6e8"}

type c09Harness struct {
	s   *Sim
	in  *Instance
	tr  *Tracker
	nc1 *nats.Conn // handler for logins / authenticated requests
	nc2 *nats.Conn // handler that only sees requests without valid credentials
	h1  http.Handler
	h2  http.Handler
	key []byte

	mu        sync.Mutex
	unauthPub []string // subjects published by nc2
	loginExp  []loginExpect
	submitted *[2]string // e-mail and password of the login request in progress, as submitted over HTTP
}

type loginExpect struct {
	email, pass string
	ok          bool
	userIDs     []string
}

func (h *c09Harness) observe(ev nats.BusEvent) {
	switch ev.Kind {
	case "publish":
		if ev.Conn == h.nc2 {
			h.mu.Lock()
			h.unauthPub = append(h.unauthPub, ev.Op.Subject)
			h.mu.Unlock()
		}
	case "dispatch":
		if ev.Sub.ConnOf() == h.in.StoreNc && ev.Msg.Subject == "auth.user" {
			pts, err := data.PbDecodePoints(ev.Msg.Data)
			if err != nil {
				return
			}
			e, _ := pts.Find(data.PointTypeEmail, "")
			p, _ := pts.Find(data.PointTypePass, "")
			// the reference decides on the credentials as they were submitted over HTTP (a handler that rewrites them
			// before asking the store would otherwise rewrite the expectation as well), at the instant the store is asked
			em, pw := e.Text, p.Text
			h.mu.Lock()
			if h.submitted != nil {
				em, pw = h.submitted[0], h.submitted[1]
			}
			h.mu.Unlock()
			ids := h.eligible(em, pw)
			h.mu.Lock()
			h.loginExp = append(h.loginExp, loginExpect{em, pw, len(ids) > 0, ids})
			h.mu.Unlock()
		}
	}
}

// eligible: user nodes whose e-mail and password match and that are connected
// to the root through edges that are not deleted (reference model).
func (h *c09Harness) eligible(email, pass string) []string {
	ref := h.tr.Ref
	var out []string
	seenU := map[string]bool{}
	for _, k := range ref.Order {
		e := ref.Edges[k]
		if e.Type != data.NodeTypeUser || seenU[e.Down] {
			continue
		}
		seenU[e.Down] = true
		pts := ref.NodePts[e.Down]
		if pts[PKey{data.PointTypeEmail, "0"}].Text != email || pts[PKey{data.PointTypePass, "0"}].Text != pass {
			continue
		}
		if h.livePathToRoot(e.Down, map[string]bool{}) {
			out = append(out, e.Down)
		}
	}
	return out
}

func (h *c09Harness) livePathToRoot(id string, seen map[string]bool) bool {
	if seen[id] {
		return false
	}
	seen[id] = true
	ref := h.tr.Ref
	for _, k := range ref.Order {
		e := ref.Edges[k]
		if e.Down != id || e.Tombstone() != 0 {
			continue
		}
		if e.Up == "root" {
			return true
		}
		if h.livePathToRoot(e.Up, seen) {
			return true
		}
	}
	return false
}

// allowedForUser: ids the node listing of a user may contain: for every live
// placement of the user, the parent node and everything below it over live edges.
func (h *c09Harness) allowedForUser(uid string) map[string]bool {
	ref := h.tr.Ref
	out := map[string]bool{}
	var down func(id string, d int)
	down = func(id string, d int) {
		if d > 60 {
			return
		}
		for _, c := range ref.Children(id) {
			if c.Tombstone() == 1 {
				continue
			}
			if !out[c.Down] {
				out[c.Down] = true
				down(c.Down, d+1)
			}
		}
	}
	for _, k := range ref.Order {
		e := ref.Edges[k]
		if e.Down == uid && e.Tombstone() != 1 {
			out[e.Up] = true
			down(e.Up, 0)
		}
	}
	return out
}

func doReq(h http.Handler, method, path, auth string, setAuth bool, body string, form url.Values) *httptest.ResponseRecorder {
	var req *http.Request
	if form != nil {
		req = httptest.NewRequest(method, path, strings.NewReader(form.Encode()))
		req.Header.Set("Content-Type", "application/x-www-form-urlencoded")
	} else {
		req = httptest.NewRequest(method, path, strings.NewReader(body))
	}
	if setAuth {
		req.Header.Set("Authorization", auth)
	}
	rec := httptest.NewRecorder()
	h.ServeHTTP(rec, req)
	return rec
}

func runC09(s *Sim) {
	wl := s.WL
	c09Token := c09Tokens[wl.Draw(len(c09Tokens))]
	in := s.NewInstance("a", c09Token)
	if s.Failed() {
		return
	}
	tr := in.Track()
	if s.Failed() {
		return
	}
	h := &c09Harness{s: s, in: in, tr: tr}
	connect := func(name string) *nats.Conn {
		nc, err := nats.Connect(in.URL(), nats.Name(name), nats.Token(c09Token))
		if err != nil {
			s.Fail("C09", "harness", "connect %s: %v", name, err)
			return nil
		}
		s.cleanup = append(s.cleanup, nc.Close)
		return nc
	}
	h.nc1, h.nc2 = connect("api1"), connect("api2")
	if s.Failed() {
		return
	}
	// bus connections without the token are refused (in the simulation this exercises the stub; see the real-stack probe)
	if _, err := nats.Connect(in.URL(), nats.Name("intruder")); err == nil {
		s.Fail("C09", "bus-token", "a bus connection without the token was accepted")
		return
	}
	if _, err := nats.Connect(in.URL(), nats.Name("intruder2"), nats.Token("wrong")); err == nil {
		s.Fail("C09", "bus-token", "a bus connection with a wrong token was accepted")
		return
	}
	mk := func(nc *nats.Conn) http.Handler {
		return api.NewAppHandler(api.ServerArgs{Filesystem: http.Dir("/nonexistent-verif"), JwtAuth: in.Store.GetAuthorizer(),
			AuthToken: c09Token, Nc: nc})
	}
	h.h1, h.h2 = mk(h.nc1), mk(h.nc2)
	// the instance's signing key, read back from the store file (never predicted)
	db, err := sql.Open("sqlite", in.File)
	if err == nil {
		err = db.QueryRow("SELECT jwt_key FROM meta").Scan(&h.key)
		db.Close()
	}
	if err != nil || len(h.key) == 0 {
		s.Fail("C09", "harness", "cannot read signing key: %v", err)
		return
	}
	s.BusObservers = append(s.BusObservers, h.observe)
	root := in.RootID

	// --- user placement history -------------------------------------------------------------
	type user struct{ id, email, pass string }
	users := []user{{"", "admin@admin.com", "admin"}}
	containers := []string{root}
	w0 := connect("w0")
	w1 := connect("w1")
	aW := []*Actor{s.NewActor("w0", w0), s.NewActor("w1", w1)}
	login := s.NewActor("login", connect("lg"))
	var sample []string
	nOps := 0
	add := func(a *Actor, name string, fn func()) {
		if nOps < 14 {
			sample = append(sample, a.Name+": "+name)
		}
		nOps++
		a.Add(name, fn)
	}
	type placement struct{ parent, id string }
	var places []placement
	nid := 0
	var issued []string // tokens obtained by logging in: (token, userID, issue instant)
	var issuedAt []time.Time
	var issuedUser []string
	doLogin := func(u user, pass string) {
		add(login, fmt.Sprintf("login %s/%s", u.email, pass), func() {
			h.mu.Lock()
			before := len(h.loginExp)
			h.mu.Unlock()
			t0 := time.Now()
			h.mu.Lock()
			h.submitted = &[2]string{u.email, pass}
			h.mu.Unlock()
			rec := doReq(h.h1, "POST", "/v1/auth", "", false, "", url.Values{"email": {u.email}, "password": {pass}})
			h.mu.Lock()
			h.submitted = nil
			if len(h.loginExp) != before+1 {
				h.mu.Unlock()
				if rec.Code != http.StatusInternalServerError {
					s.Fail("C09", "login-untracked", "login answered %d although the store was not asked exactly once", rec.Code)
				}
				return
			}
			exp := h.loginExp[before]
			h.mu.Unlock()
			var a data.Auth
			gotTok := rec.Code == 200 && json.Unmarshal(rec.Body.Bytes(), &a) == nil && a.Token != ""
			if exp.ok && !gotTok {
				s.Fail("C09", "login-refused", "login %s/%s was refused (HTTP %d %q) although user %v matches and is connected to the root through live edges",
					exp.email, exp.pass, rec.Code, strings.TrimSpace(rec.Body.String()), exp.userIDs)
				return
			}
			if !exp.ok && gotTok {
				s.Fail("C09", "login-granted", "login %s/%s was granted a token although no matching user is connected to the root through live edges", exp.email, exp.pass)
				return
			}
			if gotTok {
				s.Probe("login-granted")
				// the token names the user
				claims := jwt.MapClaims{}
				_, _, perr := new(jwt.Parser).ParseUnverified(a.Token, claims)
				uid, _ := claims["jti"].(string)
				okU := false
				for _, id := range exp.userIDs {
					if id == uid {
						okU = true
					}
				}
				if perr != nil || !okU {
					s.Fail("C09", "login-token-user", "token issued for %s names user %q, eligible users are %v", exp.email, uid, exp.userIDs)
					return
				}
				issued = append(issued, a.Token)
				issuedAt = append(issuedAt, t0)
				issuedUser = append(issuedUser, uid)
			} else {
				s.Probe("login-refused")
			}
		})
	}
	for wl.More(12) {
		a := aW[wl.Draw(2)]
		switch weighted(wl, []int{4, 3, 3, 3, 3, 2, 6, 2, 2}) {
		case 0: // new user under a container
			nid++
			u := user{fmt.Sprintf("u%d", nid), fmt.Sprintf("u%d@x.io", nid), fmt.Sprintf("pw%d", nid)}
			switch wl.Draw(9) {
			case 0, 1, 2:
				u.email = fmt.Sprintf("U%d@X.io", nid) // e-mails are compared as stored, letter case included
			case 3: // legal addresses with characters that mean something to a query language or a pattern match
				u.email = fmt.Sprintf("pat.o'neil%d@x.io", nid)
			case 4:
				u.email = []string{"\"q\"%d@x.io", "a%%_%d@x.io", "semi;--%d@x.io"}[wl.Draw(3)]
				u.email = fmt.Sprintf(u.email, nid)
			}
			users = append(users, u)
			parent := containers[wl.Draw(len(containers))]
			places = append(places, placement{parent, u.id})
			add(a, fmt.Sprintf("create user %s under %s", u.id, parent), func() {
				_ = client.SendNode(a.Nc, data.NodeEdge{ID: u.id, Parent: parent, Type: data.NodeTypeUser, Points: data.Points{
					{Type: data.PointTypeEmail, Text: u.email}, {Type: data.PointTypePass, Text: u.pass},
					{Type: data.PointTypeFirstName, Text: u.id}}}, "web")
			})
		case 1: // new group
			nid++
			id := fmt.Sprintf("g%d", nid)
			parent := containers[wl.Draw(len(containers))]
			containers = append(containers, id)
			places = append(places, placement{parent, id})
			add(a, fmt.Sprintf("create group %s under %s", id, parent), func() {
				_ = client.SendNode(a.Nc, data.NodeEdge{ID: id, Parent: parent, Type: data.NodeTypeGroup}, "web")
			})
		case 2: // move a user or group
			if len(places) == 0 {
				continue
			}
			p := places[wl.Draw(len(places))]
			np := containers[wl.Draw(len(containers))]
			if np == p.parent || np == p.id {
				continue
			}
			places = append(places, placement{np, p.id})
			add(a, fmt.Sprintf("move %s from %s to %s", p.id, p.parent, np), func() { _ = client.MoveNode(a.Nc, p.id, p.parent, np, "web") })
		case 3: // mirror
			if len(places) == 0 {
				continue
			}
			p := places[wl.Draw(len(places))]
			np := containers[wl.Draw(len(containers))]
			if np == p.parent || np == p.id {
				continue
			}
			places = append(places, placement{np, p.id})
			add(a, fmt.Sprintf("mirror %s under %s", p.id, np), func() { _ = client.MirrorNode(a.Nc, p.id, np, "web") })
		case 4: // delete a placement
			if len(places) == 0 {
				continue
			}
			p := places[wl.Draw(len(places))]
			add(a, fmt.Sprintf("delete %s/%s", p.parent, p.id), func() { _ = client.DeleteNode(a.Nc, p.id, p.parent, "web") })
		case 5: // re-add (undelete) a placement
			if len(places) == 0 {
				continue
			}
			p := places[wl.Draw(len(places))]
			add(a, fmt.Sprintf("undelete %s/%s", p.parent, p.id), func() {
				_ = client.SendEdgePoint(a.Nc, p.id, p.parent, data.Point{Type: data.PointTypeTombstone, Value: 0, Origin: "web"}, true)
			})
		case 6: // login, right or wrong password
			u := users[wl.Draw(len(users))]
			pass := u.pass
			if wl.Chance(1, 4) {
				pass = pass + "x"
			}
			switch wl.Draw(8) { // near-misses of the e-mail: no stored user has them, so no token may be issued for them
			case 0:
				u.email = strings.ToLower(u.email)
			case 1:
				u.email = strings.ToUpper(u.email)
			case 2:
				u.email = " " + u.email + " "
			}
			doLogin(u, pass)
		case 7: // login with an unknown e-mail / empty credentials
			// ... among them strings that are no address at all but would widen a query or a pattern they were pasted into
			unknown := []string{"nobody@x.io", "", "admin@admin.com ", "' OR '1'='1", "x' OR type='email", "%", "admin@admin.com' --", "admin_admin.com"}
			pw := []string{"", "admin"}[wl.Draw(2)]
			if wl.Chance(1, 3) {
				pw = users[wl.Draw(len(users))].pass
			}
			doLogin(user{email: unknown[wl.Draw(len(unknown))]}, pw)
		case 8: // time passes (tokens age)
			d := time.Duration(1+wl.Draw(100)) * time.Hour
			add(login, fmt.Sprintf("sleep %s", d), func() { time.Sleep(d) })
		}
	}
	s.SampleText = fmt.Sprintf("ops=%d: %s", nOps, strings.Join(sample, " | "))
	s.OnQuiescent = append(s.OnQuiescent, func() { tr.CheckState(false) })
	s.AfterStep = append(s.AfterStep, tr.Process)
	s.Run()
	if s.Failed() {
		return
	}
	s.Settle()
	tr.CheckState(true)
	if s.Failed() {
		return
	}

	// --- credentials: what is valid is served, everything else is 401 and touches nothing ------
	if len(issued) == 0 {
		// make sure there is at least one issued token: the default admin
		var rec *httptest.ResponseRecorder
		t0 := time.Now()
		s.Call(func() {
			rec = doReq(h.h1, "POST", "/v1/auth", "", false, "", url.Values{"email": {"admin@admin.com"}, "password": {"admin"}})
		})
		var a data.Auth
		if rec.Code == 200 && json.Unmarshal(rec.Body.Bytes(), &a) == nil && a.Token != "" {
			claims := jwt.MapClaims{}
			_, _, _ = new(jwt.Parser).ParseUnverified(a.Token, claims)
			uid, _ := claims["jti"].(string)
			issued, issuedAt, issuedUser = append(issued, a.Token), append(issuedAt, t0), append(issuedUser, uid)
		}
	}
	sign := func(m jwt.SigningMethod, key any, exp time.Time, id string) string {
		tok, err := jwt.NewWithClaims(m, jwt.StandardClaims{ExpiresAt: exp.Unix(), Issuer: "simpleiot", Id: id}).SignedString(key)
		if err != nil {
			return "unsignable"
		}
		return tok
	}
	now := time.Now()
	otherKey := append([]byte(nil), h.key...)
	otherKey[0] ^= 1
	valid := sign(jwt.SigningMethodHS256, h.key, now.Add(time.Hour), "someone")
	parts := strings.Split(valid, ".")
	tampered := valid
	if len(parts) == 3 {
		pl := []byte(parts[1])
		pl[len(pl)/2] ^= 1
		tampered = parts[0] + "." + string(pl) + "." + parts[2]
	}
	bad := []struct {
		name, val string
		set       bool
	}{
		{"absent", "", false}, {"empty", "", true}, {"token+space", c09Token + " ", true}, {"token-prefix", c09Token[:len(c09Token)-1], true},
		{"token+x", c09Token + "x", true}, {"token-last-char-changed", c09Token[:len(c09Token)-1] + "~", true},
		{"token-tail-dropped", c09Token[:len(c09Token)-len(c09Token)/8], true}, {"TOKEN-upper", strings.ToUpper(c09Token), true}, {"Bearer-only", "Bearer", true},
		{"Bearer-space", "Bearer ", true}, {"Bearer-garbage", "Bearer garbage", true}, {"Bearer-token", "Bearer " + c09Token, true},
		{"lowercase-scheme", "bearer " + valid, true}, {"Basic", "Basic " + valid, true},
		{"expired", "Bearer " + sign(jwt.SigningMethodHS256, h.key, now.Add(-2*time.Second), "someone"), true},
		{"other-key", "Bearer " + sign(jwt.SigningMethodHS256, otherKey, now.Add(time.Hour), "someone"), true},
		{"empty-key", "Bearer " + sign(jwt.SigningMethodHS256, []byte{}, now.Add(time.Hour), "someone"), true},
		{"zero-key", "Bearer " + sign(jwt.SigningMethodHS256, make([]byte, 20), now.Add(time.Hour), "someone"), true},
		{"alg-none", "Bearer " + sign(jwt.SigningMethodNone, jwt.UnsafeAllowNoneSignatureType, now.Add(time.Hour), "someone"), true},
		{"HS384-same-key", "Bearer " + sign(jwt.SigningMethodHS384, h.key, now.Add(time.Hour), "someone"), true},
		{"HS512-same-key", "Bearer " + sign(jwt.SigningMethodHS512, h.key, now.Add(time.Hour), "someone"), true},
		{"tampered", "Bearer " + tampered, true}, {"truncated", "Bearer " + valid[:len(valid)-3], true},
	}
	methods := []string{"GET", "POST", "PUT", "DELETE", "PATCH", "HEAD", "OPTIONS"}
	nodePaths := []string{"/v1/nodes", "/v1/nodes/", "/v1/nodes/" + root, "/v1/nodes/" + root + "/points", "/v1/nodes/" + root + "/samples",
		"/v1/nodes/" + root + "/parents", "/v1/nodes/" + root + "/not", "/v1/nodes/" + root + "/x", "/v1/nodes/none", "/v1//nodes/" + root, "/v1/nodes/" + root + "//points"}
	otherPaths := []string{"/v1/", "/v1/users", "/v1/groups", "/v1/msg", "/v1/nodesx", "/v1/Nodes"}
	bodies := []string{"", "{}", `[{"type":"value","value":1}]`, `{"id":"evil","parent":"` + root + `","type":"device"}`, `{"Parent":"root"}`, "\x00\xff"}
	nProbe := 30 + wl.Draw(40)
	for i := 0; i < nProbe && !s.Failed(); i++ {
		b := bad[wl.Draw(len(bad))]
		m := methods[wl.Draw(len(methods))]
		body := bodies[wl.Draw(len(bodies))]
		isNode := wl.Chance(4, 5)
		var path string
		if isNode {
			path = nodePaths[wl.Draw(len(nodePaths))]
		} else {
			path = otherPaths[wl.Draw(len(otherPaths))]
		}
		h.mu.Lock()
		h.unauthPub = nil
		h.mu.Unlock()
		var rec *httptest.ResponseRecorder
		s.Call(func() { rec = doReq(h.h2, m, path, b.val, b.set, body, nil) })
		s.Settle()
		h.mu.Lock()
		pubs := append([]string(nil), h.unauthPub...)
		h.mu.Unlock()
		if len(pubs) > 0 {
			s.Fail("C09", "unauth-effect", "%s %s with Authorization %s caused bus traffic %v (HTTP %d)", m, path, b.name, pubs, rec.Code)
			return
		}
		if isNode && rec.Code != http.StatusUnauthorized {
			s.Fail("C09", "unauth-status", "%s %s with Authorization %s was answered %d, want 401", m, path, b.name, rec.Code)
			return
		}
		s.Probe("unauth-" + b.name)
	}
	if s.Failed() {
		return
	}
	// valid credentials are served (not 401): the configured token and issued bearer tokens, until they expire
	var rec *httptest.ResponseRecorder
	s.Call(func() { rec = doReq(h.h1, "GET", "/v1/nodes/"+root, c09Token, true, "all", nil) })
	if rec.Code == http.StatusUnauthorized {
		s.Fail("C09", "token-refused", "the configured auth token was answered 401")
		return
	}
	for i, tok := range issued {
		age := time.Since(issuedAt[i])
		var rec *httptest.ResponseRecorder
		s.Call(func() { rec = doReq(h.h1, "GET", "/v1/nodes", "Bearer "+tok, true, "", nil) })
		switch {
		case age < 168*time.Hour-time.Second && rec.Code == http.StatusUnauthorized:
			s.Fail("C09", "bearer-refused", "a token issued %s ago (life 168h) was answered 401", age)
			return
		case age > 168*time.Hour+2*time.Second && rec.Code != http.StatusUnauthorized:
			s.Fail("C09", "bearer-expired-accepted", "a token issued %s ago (life 168h) was still accepted (HTTP %d)", age, rec.Code)
			return
		}
		if rec.Code == 200 {
			// the listing contains only the subtrees of the places the user is attached to
			var nodes []data.NodeEdge
			if err := json.Unmarshal(rec.Body.Bytes(), &nodes); err == nil {
				allowed := h.allowedForUser(issuedUser[i])
				for _, n := range nodes {
					if !allowed[n.ID] {
						s.Fail("C09", "listing-leak", "node listing of user %s contains %s (parent %s), which is not in a subtree the user is attached to; allowed %v",
							issuedUser[i], n.ID, n.Parent, sortedSet(allowed))
						return
					}
				}
				s.Probe("listing-checked")
			}
		}
	}
	// expiry on the simulated clock: present every token just before and just after the end of its life
	for i, tok := range issued {
		exp := issuedAt[i].Add(168 * time.Hour)
		if time.Now().After(exp.Add(-2 * time.Second)) {
			continue
		}
		time.Sleep(time.Until(exp.Add(-2 * time.Second)))
		s.Fault("clock-jump")
		var rec *httptest.ResponseRecorder
		s.Call(func() { rec = doReq(h.h1, "GET", "/v1/nodes", "Bearer "+tok, true, "", nil) })
		if rec.Code == http.StatusUnauthorized {
			s.Fail("C09", "bearer-refused", "a token was answered 401 two seconds before the end of its 168h life")
			return
		}
		time.Sleep(4 * time.Second)
		s.Call(func() { rec = doReq(h.h1, "GET", "/v1/nodes", "Bearer "+tok, true, "", nil) })
		if rec.Code != http.StatusUnauthorized {
			s.Fail("C09", "bearer-expired-accepted", "a token was still accepted (HTTP %d) two seconds after the end of its 168h life", rec.Code)
			return
		}
		s.Probe("expiry-boundary")
		break
	}
	s.Stats.NonTrivial = true
}

func init() { register(&Engine{Prop: "C09", Run: runC09}) }
