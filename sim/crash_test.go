package sim

import (
	"database/sql"
	"encoding/json"
	"errors"
	"fmt"
	"io"
	"log"
	"os"
	"runtime"
	"strings"
	"testing"
	"time"

	"github.com/google/uuid"
	"github.com/nats-io/nats.go"
	"github.com/simpleiot/simpleiot/api"
	"github.com/simpleiot/simpleiot/client"
	"github.com/simpleiot/simpleiot/data"
	"github.com/simpleiot/simpleiot/store"
)

// crashsim (C04): process death at a chosen I/O instant.
//
// TestCrashChild runs the real store single-threaded (simnats inline mode: a
// publish calls the matching handlers on the caller's goroutine, the main
// goroutine is locked to its OS thread) on a directory given by the parent,
// performs first-time initialisation and a seeded write history, and reports
// every acknowledgement on stdout *after* the store's reply arrived.  The
// parent (the check driver) runs it under
//   strace -f -P <db files> -e trace=<mutating syscalls> -e inject=<same>:signal=KILL:when=k
// so that the process dies on entering its k-th file-mutating system call.
// TestCrashVerify, in a fresh process, opens the directory again with the real
// store and checks what the property states.

const crashRoot = "crash-root"

type crashOp struct {
	Node, Parent string
	Edge         bool
	Pts          data.Points
}

func (o crashOp) String() string {
	if o.Edge {
		return fmt.Sprintf("p.%s.%s [%s]", o.Node, o.Parent, shortPts(o.Pts))
	}
	return fmt.Sprintf("p.%s [%s]", o.Node, shortPts(o.Pts))
}

// crashWorkload is a pure function of the seed (child and verifier both call it).
func crashWorkload(seed uint64, nOps int) []crashOp {
	t := NewTape(seed)
	var ops []crashOp
	nodes := []string{crashRoot}
	depth := map[string]int{crashRoot: 0}
	type ed struct{ p, n string }
	var edges []ed
	clock := time.Date(2001, 1, 1, 0, 0, 0, 0, time.UTC).UnixNano()
	next := func() time.Time { clock += int64(1 + t.Draw(1000)); return time.Unix(0, clock) }
	pts := func(n int) data.Points {
		var out data.Points
		for i := 0; i < n; i++ {
			out = append(out, data.Point{Type: []string{"value", "description", "a", "b"}[t.Draw(4)], Key: []string{"", "0", "1", "k"}[t.Draw(4)],
				Time: next(), Value: float64(t.Draw(1000)), Text: fmt.Sprintf("t%d", len(ops)), Origin: "w"})
		}
		return out
	}
	nid := 0
	for len(ops) < nOps {
		switch weighted(t, []int{10, 6, 4, 2, 2, 1}) {
		case 5: // a very large batch (hundreds of points, one acknowledgement): all of it or nothing, however the store cuts its work
			n := nodes[t.Draw(len(nodes))]
			cnt := 520 + t.Draw(800)
			var big data.Points
			for i := 0; i < cnt; i++ {
				big = append(big, data.Point{Type: "huge", Key: fmt.Sprint(i), Time: next(), Text: "h", Value: float64(i)})
			}
			ops = append(ops, crashOp{Node: n, Pts: big})
		case 0: // node points (also for a node that has no edge yet: points first)
			n := nodes[t.Draw(len(nodes))]
			if t.Chance(1, 8) {
				nid++
				n = fmt.Sprintf("c%d", nid)
				nodes = append(nodes, n)
				depth[n] = 99 // not attached
			}
			ops = append(ops, crashOp{Node: n, Pts: pts(1 + t.Draw(4))})
		case 1: // new node under a parent (edge batch: tombstone + nodeType), chains up to depth 5
			var cands []string
			for _, p := range nodes {
				if depth[p] < 5 {
					cands = append(cands, p)
				}
			}
			p := cands[t.Draw(len(cands))]
			nid++
			n := fmt.Sprintf("c%d", nid)
			nodes = append(nodes, n)
			depth[n] = depth[p] + 1
			edges = append(edges, ed{p, n})
			tm := next()
			ops = append(ops, crashOp{Node: n, Parent: p, Edge: true, Pts: data.Points{
				{Type: data.PointTypeTombstone, Time: tm}, {Type: data.PointTypeNodeType, Text: "variable", Time: tm}}})
		case 2: // edge points on an existing edge
			if len(edges) == 0 {
				continue
			}
			e := edges[t.Draw(len(edges))]
			p := data.Point{Type: "role", Text: fmt.Sprintf("r%d", len(ops)), Time: next()}
			if t.Chance(1, 3) {
				p = data.Point{Type: data.PointTypeTombstone, Value: float64(t.Draw(2)), Time: next()}
			}
			ops = append(ops, crashOp{Node: e.n, Parent: e.p, Edge: true, Pts: data.Points{p}})
		case 3: // mirror an existing node under another parent that is not below it
			if len(edges) == 0 {
				continue
			}
			e := edges[t.Draw(len(edges))]
			p := nodes[t.Draw(len(nodes))]
			if p == e.n || depth[p] >= depth[e.n] || depth[p] > 4 {
				continue
			}
			dup := false
			for _, x := range edges {
				if x.p == p && x.n == e.n {
					dup = true
				}
			}
			if dup {
				continue
			}
			edges = append(edges, ed{p, e.n})
			tm := next()
			ops = append(ops, crashOp{Node: e.n, Parent: p, Edge: true, Pts: data.Points{
				{Type: data.PointTypeTombstone, Time: tm}, {Type: data.PointTypeNodeType, Text: "variable", Time: tm}}})
		case 4: // a large batch (many pages in one transaction)
			n := nodes[t.Draw(len(nodes))]
			var big data.Points
			for i := 0; i < 40; i++ {
				big = append(big, data.Point{Type: "big", Key: fmt.Sprint(i), Time: next(), Text: strings.Repeat("x", 200), Value: float64(i)})
			}
			ops = append(ops, crashOp{Node: n, Pts: big})
		}
	}
	return ops
}

func crashEnv() (dir string, seed uint64, nOps int) {
	return os.Getenv("VERIF_CRASH_DIR"), envU64("VERIF_CRASH_SEED", 1), envInt("VERIF_CRASH_OPS", 20)
}

func say(format string, a ...any) {
	// one write system call per line, straight to the pipe the parent reads
	_, _ = os.Stdout.Write([]byte(fmt.Sprintf(format, a...) + "\n"))
}

// inlineStore opens the store in a directory on an inline bus.
var inlineRunDone chan struct{}

func inlineStore(dir string, rootID string) (*store.Store, *nats.Conn, *nats.World, error) {
	w := nats.NewWorld()
	w.Inline = true
	w.AddServer("c", "")
	snc, err := nats.Connect("nats://c:4222", nats.Name("store"))
	if err != nil {
		return nil, nil, nil, err
	}
	st, err := store.NewStore(store.Params{File: dir + "/store.sqlite", Server: "nats://c:4222", Nc: snc, ID: rootID})
	if err != nil {
		return nil, nil, w, err
	}
	done := make(chan struct{})
	inlineRunDone = done
	go func() { _ = st.Run(); close(done) }()
	// Run only subscribes (no file I/O) and then blocks; wait until the bus knows the subscriptions
	for i := 0; i < 2000; i++ {
		hc, _ := nats.Connect("nats://c:4222", nats.Name("probe"))
		_, err := hc.Request("admin.storeVerify", nil, time.Second)
		hc.Close()
		if err == nil {
			break
		}
		time.Sleep(time.Millisecond)
	}
	hc, err := nats.Connect("nats://c:4222", nats.Name("h"))
	return st, hc, w, err
}

func TestCrashChild(t *testing.T) {
	dir, seed, nOps := crashEnv()
	if dir == "" {
		t.Skip("VERIF_CRASH_DIR not set")
	}
	runtime.LockOSThread()
	log.SetOutput(io.Discard)
	uuid.SetRand(&seedReader{state: mix(seed, 4242)}) // same ids, same page layout, same system calls in every run of a history
	ops := crashWorkload(seed, nOps)
	rootParam := crashRoot
	if os.Getenv("VERIF_CRASH_ROOT") == "default" {
		rootParam = "" // the default configuration: the instance generates its own root id
	}
	st, hc, w, err := inlineStore(dir, rootParam)
	if err != nil {
		say("CHILD-ERROR open: %v", err)
		os.Exit(5)
	}
	rn, err := client.GetRootNode(hc)
	if err != nil {
		say("CHILD-ERROR root: %v", err)
		os.Exit(5)
	}
	say("ROOT %s", rn.ID)
	for i := range ops {
		if ops[i].Node == crashRoot {
			ops[i].Node = rn.ID
		}
		if ops[i].Parent == crashRoot {
			ops[i].Parent = rn.ID
		}
	}
	tok, err := st.GetAuthorizer().NewToken("probe")
	if err != nil {
		say("CHILD-ERROR token: %v", err)
		os.Exit(5)
	}
	say("INIT-DONE %s", tok)
	// an operation is acknowledged at the instant the store publishes its reply (that is when a real client would
	// learn about it), not when the handler returns
	cur := -1
	storeConn := w.Conns()[0]
	w.Observer = func(ev nats.BusEvent) {
		if ev.Kind == "publish" && ev.Conn == storeConn && strings.HasPrefix(ev.Op.Subject, "_INBOX.") && cur >= 0 {
			if len(ev.Op.Data) == 0 {
				say("ACK %d", cur)
			} else {
				say("NACK %d %s", cur, ev.Op.Data)
			}
		}
	}
	for i, op := range ops {
		cur = i
		var err error
		if op.Edge {
			err = client.SendEdgePoints(hc, op.Node, op.Parent, append(data.Points(nil), op.Pts...), true)
		} else {
			err = client.SendNodePoints(hc, op.Node, append(data.Points(nil), op.Pts...), true)
		}
		if err != nil && (errors.Is(err, nats.ErrTimeout) || errors.Is(err, nats.ErrNoResponders)) {
			say("NACK %d %v", i, err)
		}
	}
	say("DONE")
	os.Exit(0) // no clean close: the parent kills or the process just ends; either way nothing is flushed on purpose
}

// CrashVerdict is what the verifier prints.
type CrashVerdict struct {
	OK      bool   `json:"ok"`
	Clause  string `json:"clause,omitempty"`
	Detail  string `json:"detail,omitempty"`
	Edges   int    `json:"edges"`
	Acked   int    `json:"acked"`
	InFlt   string `json:"in_flight"`
	Orphans int    `json:"points_first_nodes_attached_and_compared"`
}

func dumpInline(hc *nats.Conn) ([]data.NodeEdge, error) {
	roots, err := client.GetNodes(hc, "root", "all", "", true)
	if err != nil {
		return nil, fmt.Errorf("get root: %w", err)
	}
	var out []data.NodeEdge
	seen := map[string]bool{}
	var walk func(n data.NodeEdge, d int) error
	walk = func(n data.NodeEdge, d int) error {
		k := n.Parent + "/" + n.ID
		if seen[k] {
			return nil
		}
		seen[k] = true
		out = append(out, n)
		if d > 64 {
			return fmt.Errorf("tree deeper than 64")
		}
		ch, err := client.GetNodes(hc, n.ID, "all", "", true)
		if err != nil {
			return fmt.Errorf("children of %s: %w", n.ID, err)
		}
		for _, c := range ch {
			if err := walk(c, d+1); err != nil {
				return err
			}
		}
		return nil
	}
	for _, r := range roots {
		if err := walk(r, 0); err != nil {
			return out, err
		}
	}
	return out, nil
}

func TestCrashVerify(t *testing.T) {
	dir, seed, nOps := crashEnv()
	if dir == "" {
		t.Skip("VERIF_CRASH_DIR not set")
	}
	log.SetOutput(io.Discard)
	acked := map[int]bool{}
	nAck := 0
	for _, f := range strings.Split(os.Getenv("VERIF_CRASH_ACKS"), ",") {
		var i int
		if _, err := fmt.Sscan(f, &i); err == nil {
			acked[i] = true
			nAck++
		}
	}
	last := envInt("VERIF_CRASH_LAST", -1) // index of the last operation the child reported on (ACK or NACK)
	token := os.Getenv("VERIF_CRASH_TOKEN")
	ops := crashWorkload(seed, nOps)
	v := CrashVerdict{OK: true, Acked: nAck}
	fail := func(clause, format string, a ...any) {
		if v.OK {
			v.OK = false
			v.Clause = clause
			v.Detail = fmt.Sprintf(format, a...)
		}
	}
	out := func() {
		b, _ := json.Marshal(v)
		fmt.Println("VERDICT " + string(b))
	}
	defer out()

	rootParam := crashRoot
	if os.Getenv("VERIF_CRASH_ROOT") == "default" {
		rootParam = ""
	}
	rootSeen := os.Getenv("VERIF_CRASH_ROOTSEEN") // what the crashed process reported as its root (empty: it died before)
	if rootParam != "" && rootSeen == "" {
		rootSeen = crashRoot
	}
	st, hc, _, err := inlineStore(dir, rootParam)
	if err != nil {
		fail("reopen-failed", "the store does not open after the crash: %v", err)
		return
	}
	roots, err := client.GetNodes(hc, "root", "all", "", true)
	if err != nil || len(roots) != 1 || (rootSeen != "" && roots[0].ID != rootSeen) {
		fail("root", "after the crash the instance root is %v (err %v), before the crash it was %q", roots, err, rootSeen)
		return
	}
	theRoot := roots[0].ID
	// exactly one placement below the root sentinel, whatever the meta row says
	if db, err := sql.Open("sqlite", dir+"/store.sqlite"); err == nil {
		var n int
		if err := db.QueryRow("SELECT COUNT(*) FROM edges WHERE up='root'").Scan(&n); err == nil && n != 1 {
			fail("root", "after the crash the store holds %d root placements (edges below the root sentinel), the instance has one root", n)
		}
		db.Close()
		if !v.OK {
			return
		}
	}
	for i := range ops {
		if ops[i].Node == crashRoot {
			ops[i].Node = theRoot
		}
		if ops[i].Parent == crashRoot {
			ops[i].Parent = theRoot
		}
	}
	if token != "" {
		if key, ok := st.GetAuthorizer().(api.Key); ok {
			if valid, _ := key.ValidToken(token); !valid {
				fail("signing-key", "a token issued before the crash is no longer valid: the token-signing key changed")
				return
			}
		}
	}
	edges, err := dumpInline(hc)
	if err != nil {
		fail("unreadable", "cannot read the recovered store: %v", err)
		return
	}
	v.Edges = len(edges)
	if d := CheckHashes(edges); d != "" {
		fail("hash", "points and hashes are out of step after the crash: %s", d)
		return
	}
	if err := client.AdminStoreVerify(hc); err != nil {
		fail("verify", "admin.storeVerify after the crash: %v", err)
		return
	}
	// every user node below the root is complete (its points are one batch)
	for _, e := range edges {
		if e.Type == data.NodeTypeUser && len(e.Points) != 5 {
			fail("partial-batch", "user node %s has %d of its 5 points: the initialisation batch is visible in part", e.ID, len(e.Points))
			return
		}
	}
	// workload content: acknowledged writes are there; the operation in flight is there completely or not at all
	inflight := -1
	if last+1 < len(ops) {
		inflight = last + 1
		v.InFlt = ops[inflight].String()
	}
	build := func(withInflight bool) *RefStore {
		r := NewRefStore(theRoot)
		r.Edges[[2]string{"root", theRoot}] = &RefEdge{Up: "root", Down: theRoot, Type: "device", Pts: map[PKey]data.Point{}}
		r.Order = append(r.Order, [2]string{"root", theRoot})
		for i, op := range ops {
			if !(acked[i] || (withInflight && i == inflight)) {
				continue
			}
			if op.Edge {
				r.EdgePoints(op.Node, op.Parent, append(data.Points(nil), op.Pts...), time.Time{})
			} else {
				r.NodePoints(op.Node, append(data.Points(nil), op.Pts...), time.Time{})
			}
		}
		return r
	}
	compare := func(r *RefStore) string {
		// restricted to what the workload wrote: workload nodes and the edges it created
		got := map[[2]string]data.NodeEdge{}
		for _, e := range edges {
			got[[2]string{e.Parent, e.ID}] = e
		}
		for _, k := range r.Order {
			we := r.Edges[k]
			if k[0] == "root" {
				continue
			}
			g, ok := got[k]
			if !ok {
				if !reachableIn(r, k[0]) {
					continue // created below a node that is itself not attached: cannot be read through the API
				}
				return fmt.Sprintf("edge %s/%s of an acknowledged write is missing", k[0], k[1])
			}
			if d := comparePoints("edge "+k[0]+"/"+k[1], g.EdgePoints, we.Pts); d != "" {
				return d
			}
		}
		for _, e := range edges {
			if e.Type == data.NodeTypeUser {
				continue
			}
			k := [2]string{e.Parent, e.ID}
			if _, ok := r.Edges[k]; !ok {
				return fmt.Sprintf("edge %s/%s exists although no acknowledged write created it", e.Parent, e.ID)
			}
			want := r.NodePts[e.ID]
			gotPts := e.Points
			if e.ID == theRoot {
				continue // the root also carries nothing from initialisation; its workload points are compared below
			}
			if d := comparePoints("node "+e.ID, gotPts, want); d != "" {
				return d
			}
		}
		// the root node's points
		for _, e := range edges {
			if e.ID == theRoot {
				if d := comparePoints("node "+theRoot, e.Points, r.NodePts[theRoot]); d != "" {
					return d
				}
			}
		}
		return ""
	}
	d1 := compare(build(false))
	if d1 != "" {
		d2 := "(no operation in flight)"
		if inflight >= 0 {
			d2 = compare(build(true))
		}
		if d2 != "" {
			fail("content", "recovered content is neither the acknowledged writes (%s) nor those plus the complete write in flight %s (%s)", d1, v.InFlt, d2)
			return
		}
	}
	// a token issued by the recovered instance has to survive the next restart: the signing key the instance works with
	// after the crash is the one in the file
	tokenAfter := ""
	if key, ok := st.GetAuthorizer().(api.Key); ok {
		tokenAfter, _ = key.NewToken("verifier")
	}
	// a second reopen changes nothing
	firstDone := inlineRunDone
	st.Stop(nil)
	select { // Run closes the database file before it returns
	case <-firstDone:
	case <-time.After(30 * time.Second):
		fail("stop", "Store.Run did not return within 30 s of Stop after the recovery")
		return
	}
	hc.Close()
	st2, hc2, _, err := inlineStore(dir, rootParam)
	if err != nil {
		fail("reopen-twice", "second reopen failed: %v", err)
		return
	}
	if tokenAfter != "" {
		if key, ok := st2.GetAuthorizer().(api.Key); ok {
			if valid, _ := key.ValidToken(tokenAfter); !valid {
				fail("signing-key", "a token issued by the recovered instance is no longer valid after the next restart: the token-signing key the instance used after the crash was not the one in the file")
				return
			}
		}
	}
	edges2, err := dumpInline(hc2)
	if err != nil || len(edges2) != len(edges) {
		fail("reopen-twice", "second reopen shows %d placements (err %v), the first %d", len(edges2), err, len(edges))
		return
	}
	for i := range edges {
		a, b := edges[i], edges2[i]
		if a.ID != b.ID || a.Parent != b.Parent || a.Hash != b.Hash || len(a.Points) != len(b.Points) || len(a.EdgePoints) != len(b.EdgePoints) {
			fail("reopen-twice", "placement %s/%s differs between the first and the second reopen", a.Parent, a.ID)
			return
		}
	}
	// acknowledged points of nodes that had no edge yet (the first half of a node creation: points first, edge second)
	// cannot be read through the API until the edge exists: send the edge now, as a sender retrying after the crash
	// would, and read the node
	rA, rB := build(false), build(inflight >= 0)
	attached := map[string]bool{}
	for k := range rB.Edges {
		attached[k[1]] = true
	}
	var orphans []string
	for id, pts := range rA.NodePts {
		if !attached[id] && len(pts) > 0 {
			orphans = append(orphans, id)
		}
	}
	sortStrings(orphans)
	tAttach := time.Date(2002, 1, 1, 0, 0, 0, 0, time.UTC)
	for _, id := range orphans {
		err := client.SendEdgePoints(hc2, id, theRoot, data.Points{{Type: data.PointTypeTombstone, Time: tAttach}, {Type: data.PointTypeNodeType, Text: "variable", Time: tAttach}}, true)
		if err != nil {
			fail("content", "attaching node %s, whose points were acknowledged before the crash, fails: %v", id, err)
			return
		}
		ns, err := client.GetNodes(hc2, theRoot, id, "", true)
		if err != nil || len(ns) != 1 {
			fail("content", "node %s cannot be read after its edge was sent: %v (%d nodes)", id, err, len(ns))
			return
		}
		if dA := comparePoints("node "+id+" (points acknowledged before it had an edge)", ns[0].Points, rA.NodePts[id]); dA != "" {
			if dB := comparePoints("node "+id, ns[0].Points, rB.NodePts[id]); dB != "" {
				fail("content", "acknowledged node points written before the node had an edge did not survive: %s", dA)
				return
			}
		}
	}
	if len(orphans) > 0 {
		all, err := dumpInline(hc2)
		if err != nil {
			fail("unreadable", "cannot read the store after attaching %d nodes: %v", len(orphans), err)
			return
		}
		if d := CheckHashes(all); d != "" {
			fail("hash", "after attaching nodes whose points were written first: %s", d)
			return
		}
	}
	v.Orphans = len(orphans)
}

func reachableIn(r *RefStore, id string) bool {
	return r.AncestorSet(id, false)["root"]
}
