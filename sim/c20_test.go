//go:build verif

package sim

import (
	"errors"
	"fmt"
	"os"
	"path/filepath"
	"strings"
	"sync/atomic"
	"time"

	"github.com/anishathalye/porcupine"
	"github.com/nats-io/nats.go"
	"github.com/simpleiot/simpleiot/client"
	"github.com/simpleiot/simpleiot/data"
	"github.com/simpleiot/simpleiot/store"
)

// C20 — concurrent use is safe.
//
// Burst mode: the store's handler goroutines (one per bus subscription) park
// at the tagged yield points inside store/sqlite.go (build tag verif) and the
// seeded scheduler releases exactly one of them at a time, so handlers overlap
// at lock, transaction, query and commit boundaries in every order the tape
// asks for.  The binary is built with -race; the hand-off between scheduler and
// handler is wrapped in runtime.RaceDisable/RaceEnable so that serialising the
// goroutines creates no happens-before edge and logical races stay visible.
// The write lock is modelled: a handler waiting for it is only released while
// no parked handler holds it.

type parkReq struct {
	site string
	ch   chan struct{}
}

type burst struct {
	s        *Sim
	reqCh    chan parkReq
	noteCh   chan string
	parked   []parkReq
	lockHeld bool
	sites    map[string]int
}

func (b *burst) yield(site string) {
	raceDisable()
	if site == "write-unlocked" {
		b.noteCh <- site
		raceEnable()
		return
	}
	r := parkReq{site, make(chan struct{})}
	b.reqCh <- r
	<-r.ch
	raceEnable()
}

// collect moves new park requests and notes to the scheduler's view (call at quiescence).
func (b *burst) collect() {
	for {
		select {
		case <-b.noteCh:
			b.lockHeld = false
			continue
		default:
		}
		break
	}
	for {
		select {
		case r := <-b.reqCh:
			b.parked = append(b.parked, r)
			continue
		default:
		}
		break
	}
}

func (b *burst) events() []SimEvent {
	b.collect()
	var evs []SimEvent
	count := map[string]int{}
	for i, p := range b.parked {
		count[p.site]++
		if p.site == "write-lock" && b.lockHeld {
			continue
		}
		i, p := i, p
		evs = append(evs, SimEvent{Key: fmt.Sprintf("release %s #%d", p.site, count[p.site]), Do: func() {
			if p.site == "write-lock" {
				b.lockHeld = true
			}
			b.parked = append(b.parked[:i:i], b.parked[i+1:]...)
			b.sites[p.site]++
			if len(b.parked) > 0 {
				b.s.Probe("handlers overlapping")
			}
			close(p.ch)
		}})
	}
	return evs
}

// drainAll releases everything FIFO (teardown).
func (b *burst) drainAll() {
	for i := 0; i < 10000; i++ {
		b.s.quiesce()
		evs := b.events()
		if len(evs) == 0 {
			if len(b.parked) == 0 {
				return
			}
			// only lock waiters left although nobody holds the lock: cannot happen; avoid hanging
			b.lockHeld = false
			continue
		}
		evs[0].Do()
	}
}

type regIn struct {
	write bool
	ts    int64
	val   float64
}
type regState struct {
	ts  int64
	val float64
}

var regModel = porcupine.Model{
	Init: func() interface{} { return regState{} },
	Step: func(st, in, out interface{}) (bool, interface{}) {
		s, i := st.(regState), in.(regIn)
		if i.write {
			if i.ts >= s.ts {
				return true, regState{i.ts, i.val}
			}
			return true, s
		}
		o := out.(regState)
		return o == s, s
	},
	Equal: func(a, b interface{}) bool { return a.(regState) == b.(regState) },
	DescribeOperation: func(in, out interface{}) string {
		i := in.(regIn)
		if i.write {
			return fmt.Sprintf("write(ts=%d,val=%v)", i.ts, i.val)
		}
		o := out.(regState)
		return fmt.Sprintf("read -> (ts=%d,val=%v)", o.ts, o.val)
	},
}

var raceLogOffset = map[string]int64{}

// newRaceReports returns race reports written since the last call that involve the code under test on both sides.
func newRaceReports() []string {
	lp := ""
	for _, f := range strings.Fields(os.Getenv("GORACE")) {
		if strings.HasPrefix(f, "log_path=") {
			lp = strings.TrimPrefix(f, "log_path=")
		}
	}
	if lp == "" {
		return nil
	}
	files, _ := filepath.Glob(lp + ".*")
	var out []string
	for _, f := range files {
		b, err := os.ReadFile(f)
		if err != nil {
			continue
		}
		off := raceLogOffset[f]
		if int64(len(b)) <= off {
			continue
		}
		raceLogOffset[f] = int64(len(b))
		for _, rep := range strings.Split(string(b[off:]), "==================") {
			if !strings.Contains(rep, "DATA RACE") {
				continue
			}
			parts := strings.SplitN(rep, "Previous ", 2)
			if len(parts) != 2 {
				continue
			}
			second := strings.SplitN(parts[1], "Goroutine ", 2)[0]
			if strings.Contains(parts[0], "/repo/") && strings.Contains(second, "/repo/") {
				out = append(out, strings.TrimSpace(rep))
			}
		}
	}
	return out
}

func runC20(s *Sim) {
	wl := s.WL
	b := &burst{s: s, reqCh: make(chan parkReq, 256), noteCh: make(chan string, 256), sites: map[string]int{}}
	in := s.NewInstance("a", "")
	if s.Failed() {
		return
	}
	tr := in.Track()
	if s.Failed() {
		return
	}
	tr.CheckReplies, tr.CheckUp = false, false // overlapping handlers: attribution of publishes is ambiguous by construction
	root := in.RootID
	// as the server does: the store reports its handler metrics (points written to the root node from inside the
	// handlers, once per report period)
	go func() { _ = in.Store.StartMetrics(root) }()
	setup, _ := nats.Connect(in.URL(), nats.Name("setup"))
	s.cleanup = append(s.cleanup, setup.Close)
	nodes := []string{root, "n1", "n2"}
	s.Call(func() {
		for _, n := range nodes[1:] {
			if err := client.SendNode(setup, data.NodeEdge{ID: n, Parent: root, Type: "variable"}, "setup"); err != nil {
				s.Fail("C20", "harness", "setup: %v", err)
			}
		}
		if err := client.SendNode(setup, data.NodeEdge{ID: "n3", Parent: "n1", Type: "variable"}, "setup"); err != nil {
			s.Fail("C20", "harness", "setup: %v", err)
		}
	})
	nodes = append(nodes, "n3")
	edges := [][2]string{{root, "n1"}, {root, "n2"}, {"n1", "n3"}}
	if s.Failed() {
		return
	}
	// One run in forty: many clients at once in front of a stalled store.  The store's node-point consumer is
	// stalled (fault), a connection pours a few thousand small unacknowledged writes into the bus, the consumer comes
	// back: the backlog is worked off and the acknowledged write sent behind it is answered.
	if wl.Chance(1, 40) {
		fnc, _ := nats.Connect(in.URL(), nats.Name("flood"))
		s.cleanup = append(s.cleanup, fnc.Close)
		nFlood := 2100 + wl.Draw(300)
		base := time.Date(1999, 11, 1, 0, 0, 0, 0, time.UTC).UnixNano()
		s.W.StallSubs(in.StoreNc, "p.*", true)
		s.Fault("store consumer stalled behind a flood of writes")
		s.Call(func() {
			for i := 0; i < nFlood; i++ {
				_ = client.SendNodePoints(fnc, root, data.Points{{Type: "f", Time: time.Unix(0, base+int64(i)), Value: float64(i), Origin: "flood"}}, false)
			}
		})
		// the acknowledged write joins the backlog while the consumer is still stalled
		done := make(chan error, 1)
		go func() {
			done <- client.SendNodePoints(fnc, root, data.Points{{Type: "f", Time: time.Unix(0, base+int64(nFlood)), Value: -1, Origin: "flood"}}, true)
		}()
		s.Settle()
		s.W.StallSubs(in.StoreNc, "p.*", false)
		var ferr error
		s.Call(func() { ferr = <-done })
		if ferr != nil {
			s.Fail("C20", "unanswered", "the acknowledged write behind a backlog of %d unacknowledged ones was not answered: %v", nFlood, ferr)
			return
		}
		s.Settle()
		tr.Process()
	}
	// from here on handlers yield to the scheduler
	store.VerifYield = b.yield
	defer func() { store.VerifYield = nil }()
	s.cleanup = append(s.cleanup, func() { store.VerifYield = nil })
	s.FaultEvents = b.events

	var stamp atomic.Int64
	type histOp struct {
		key string
		op  porcupine.Operation
	}
	opsCh := make(chan histOp, 8192)
	nAct := wl.Range(3, 6)
	for i := 0; i < nAct; i++ {
		nc, _ := nats.Connect(in.URL(), nats.Name(fmt.Sprintf("w%d", i)))
		s.cleanup = append(s.cleanup, nc.Close)
		s.NewActor(fmt.Sprintf("w%d", i), nc)
	}
	clock := time.Date(1999, 12, 1, 0, 0, 0, 0, time.UTC).UnixNano()
	val := 0.0
	idents := []PKey{{"v", ""}, {"v", "a"}, {"w", ""}}
	var sample []string
	nOps := 0
	ident := func(n string, k PKey) string { return n + "|" + k.Type + "|" + normKey(k.Key) }
	newID := 0
	rootEdgeDone := false
	unanswered := 0
	// one run in six ends with the instance stopped in the middle of the load (see below): what the writers are told
	// from then on is not judged
	var stopping atomic.Bool
	opFail := func(prop, clause, format string, args ...any) {
		if !stopping.Load() {
			s.Fail(prop, clause, format, args...)
		}
	}
	for wl.More(14) {
		ai := wl.Draw(nAct)
		a := s.Actors[ai]
		var name string
		switch weighted(wl, []int{7, 5, 2, 2, 2, 1, 1, 1}) {
		case 0: // node-point write, 1..2 identities, unique values, globally distinct timestamps
			n := nodes[wl.Draw(len(nodes))]
			cnt := 1 + wl.Draw(2)
			var pts data.Points
			seenK := map[PKey]bool{}
			for i := 0; i < cnt; i++ {
				k := idents[wl.Draw(len(idents))]
				if seenK[PKey{k.Type, normKey(k.Key)}] {
					continue
				}
				seenK[PKey{k.Type, normKey(k.Key)}] = true
				clock += int64(1 + wl.Draw(50))
				val++
				pts = append(pts, data.Point{Type: k.Type, Key: k.Key, Time: time.Unix(0, clock), Value: val, Origin: a.Name})
			}
			name = fmt.Sprintf("write %s [%s]", n, shortPts(pts))
			a.Add(name, func() {
				call := stamp.Add(1)
				err := client.SendNodePoints(a.Nc, n, append(data.Points(nil), pts...), true)
				ret := stamp.Add(1)
				if err != nil {
					ret = 1 << 60 // not acknowledged: it may take effect at any later moment, or never
					if !errors.Is(err, nats.ErrTimeout) && !errors.Is(err, nats.ErrNoResponders) {
						opFail("C20", "write-error", "%s was answered with error %v", name, err)
					} else if s.DelayPM == 0 {
						// simulated time only passes when nothing can run, so without injected stalls a request cannot
						// time out behind a merely slow handler: its message or its reply was lost
						opFail("C20", "unanswered", "%s was never answered (%v) although nothing was stalled", name, err)
					}
				}
				for _, p := range pts {
					opsCh <- histOp{ident(n, PKey{p.Type, p.Key}), porcupine.Operation{ClientId: ai, Input: regIn{true, p.Time.UnixNano(), p.Value},
						Call: call, Output: regState{}, Return: ret}}
				}
			})
		case 1: // read a node through its placement and record what it shows for every tracked identity
			e := edges[wl.Draw(len(edges))]
			name = fmt.Sprintf("read %s/%s", e[0], e[1])
			a.Add(name, func() {
				call := stamp.Add(1)
				ns, err := client.GetNodes(a.Nc, e[0], e[1], "", true)
				ret := stamp.Add(1)
				if err != nil {
					if errors.Is(err, nats.ErrTimeout) || errors.Is(err, nats.ErrNoResponders) {
						if s.DelayPM == 0 {
							opFail("C20", "unanswered", "%s was never answered (%v) although nothing was stalled", name, err)
						}
						unanswered++
						return
					}
					opFail("C20", "read-error", "%s failed: %v", name, err)
					return
				}
				if len(ns) != 1 {
					opFail("C20", "read-error", "%s returned %d nodes", name, len(ns))
					return
				}
				for _, k := range idents {
					st := regState{}
					for _, p := range ns[0].Points {
						if p.Type == k.Type && normKey(p.Key) == normKey(k.Key) {
							st = regState{p.Time.UnixNano(), p.Value}
						}
					}
					opsCh <- histOp{ident(e[1], k), porcupine.Operation{ClientId: ai, Input: regIn{false, 0, 0}, Call: call, Output: st, Return: ret}}
				}
			})
		case 2: // edge point on an existing edge
			e := edges[wl.Draw(len(edges))]
			clock += int64(1 + wl.Draw(50))
			p := data.Point{Type: "role", Text: fmt.Sprintf("r%d", nOps), Time: time.Unix(0, clock), Origin: a.Name}
			name = fmt.Sprintf("edge point %s/%s", e[0], e[1])
			a.Add(name, func() {
				if err := client.SendEdgePoint(a.Nc, e[1], e[0], p, true); err != nil && !errors.Is(err, nats.ErrTimeout) {
					opFail("C20", "write-error", "%s was answered with error %v", name, err)
				}
			})
		case 3: // a new node (new edge, hash propagation up to the root)
			newID++
			id := fmt.Sprintf("x%d", newID)
			parent := nodes[wl.Draw(len(nodes))]
			clock += int64(1 + wl.Draw(50))
			t := time.Unix(0, clock)
			name = fmt.Sprintf("create %s under %s", id, parent)
			a.Add(name, func() {
				err := client.SendEdgePoints(a.Nc, id, parent, data.Points{{Type: data.PointTypeTombstone, Time: t}, {Type: data.PointTypeNodeType, Text: "variable", Time: t}}, true)
				if err != nil && !errors.Is(err, nats.ErrTimeout) {
					opFail("C20", "write-error", "%s was answered with error %v", name, err)
				}
			})
		case 4: // verification request
			name = "storeVerify"
			a.Add(name, func() {
				if err := client.AdminStoreVerify(a.Nc); err != nil && !errors.Is(err, nats.ErrTimeout) {
					opFail("C20", "verify-error", "admin.storeVerify answered %v while writes were going on", err)
				}
			})
		case 7: // a write the store must refuse (n1 under its own descendant n3): error paths run concurrently with everything else
			clock += int64(1 + wl.Draw(50))
			t := time.Unix(0, clock)
			name = "refused: n1 under its descendant n3"
			a.Add(name, func() {
				err := client.SendEdgePoints(a.Nc, "n1", "n3", data.Points{{Type: data.PointTypeTombstone, Time: t}, {Type: data.PointTypeNodeType, Text: "variable", Time: t}}, true)
				if err == nil {
					opFail("C20", "write-error", "%s was acknowledged without error", name)
				}
			})
		case 6: // maintenance request (its own subscription, so it overlaps verification, reads and writes)
			name = "storeMaint"
			a.Add(name, func() {
				if err := client.AdminStoreMaint(a.Nc); err != nil && !errors.Is(err, nats.ErrTimeout) {
					opFail("C20", "verify-error", "admin.storeMaint answered %v while writes were going on", err)
				}
			})
		case 5: // a second root-parent edge: the instance root id changes under concurrent readers
			if rootEdgeDone || !fenceOpen("c20-root-edge") {
				continue
			}
			rootEdgeDone = true
			clock += int64(1 + wl.Draw(50))
			t := time.Unix(0, clock)
			name = "new root-parent edge for n2"
			a.Add(name, func() {
				_ = client.SendEdgePoints(a.Nc, "n2", "root", data.Points{{Type: data.PointTypeTombstone, Time: t}, {Type: data.PointTypeNodeType, Text: "variable", Time: t}}, true)
			})
		}
		if nOps < 12 {
			sample = append(sample, a.Name+": "+name)
		}
		nOps++
	}
	s.SampleText = fmt.Sprintf("actors=%d ops=%d: %s", nAct, nOps, strings.Join(sample, " | "))
	if wl.Chance(1, 5) {
		s.DelayPM = wl.Range(1, 8)
		s.DelayMax = 500
	}
	// One run in six: the instance is stopped while handlers sit inside their transactions, at a moment the tape picks.
	// The handlers are released afterwards and finish against a store that is shutting down; the writers' requests time
	// out.  Then the file is opened again: whatever made it into the file, every hash must match the content below it
	// (a write caught by the stop is applied completely or not at all), and the instance takes writes.
	stopUnderLoad := wl.Chance(1, 6)
	stopNow := false
	savedMax := s.MaxSteps
	if stopUnderLoad {
		inner := s.FaultEvents
		armed := wl.Range(2, 40) // the stop becomes possible after this many handler releases
		s.FaultEvents = func() []SimEvent {
			evs := inner()
			n := 0
			for _, c := range b.sites {
				n += c
			}
			if !stopNow && n >= armed && len(b.parked) > 0 {
				evs = append(evs, SimEvent{Key: "fault stop the instance under load", Do: func() {
					stopNow = true
					s.MaxSteps = s.Step // leave the schedule loop: the stop itself is driven from outside it
				}})
			}
			return evs
		}
	}
	s.Run()
	if stopNow {
		s.MaxSteps = savedMax
		s.Fault("instance stopped under load")
		stopping.Store(true)
		tr.Muted.Store(true)
		s.DelayPM = 0
		for _, a := range s.Actors {
			a.Queue = nil
		}
		nParked := len(b.parked)
		in.Stop()
		if s.Failed() {
			return
		}
		b.drainAll()
		s.Settle()
		b.drainAll()
		store.VerifYield = nil
		s.FaultEvents = nil
		s.AdvanceIdle(45 * time.Second) // the writers' requests time out
		if s.Failed() {
			return
		}
		in.Start()
		if s.Failed() {
			return
		}
		dump, derr := in.Dump()
		if derr != nil {
			s.Fail("C20", "reopen", "after a stop under load (%d handlers inside the store) the reopened store cannot be read: %v", nParked, derr)
			return
		}
		if d := CheckHashes(dump); d != "" {
			s.Fail("C20", "stop-under-load-hash", "the instance was stopped with %d handlers inside the store; in the reopened file %s", nParked, d)
			return
		}
		var verr error
		s.TakeLog()
		s.Call(func() { verr = client.AdminStoreVerify(in.Obs) })
		if l := s.TakeLog(); verr != nil || strings.Contains(l, "Hash failed") {
			s.Fail("C20", "stop-under-load-hash", "the instance was stopped with %d handlers inside the store; verification of the reopened file: err=%v log=%s",
				nParked, verr, firstLineWith(l, "Hash failed"))
			return
		}
		s.Call(func() {
			nc2, err := nats.Connect(in.URL(), nats.Name("after-stop"))
			if err != nil {
				s.Fail("C20", "harness", "connect after reopen: %v", err)
				return
			}
			defer nc2.Close()
			clock += 1000
			if err := client.SendNodePoint(nc2, "n1", data.Point{Type: "probe", Value: 3, Time: time.Unix(0, clock), Origin: "setup"}, true); err != nil {
				s.Fail("C20", "reopen", "after a stop under load and a new start on the same store file a node-point write was answered: %v", err)
			}
		})
		s.Probe("stopped under load, reopened, hashes checked")
		return
	}
	// every parked handler finishes
	b.drainAll()
	s.Settle()
	b.drainAll()
	store.VerifYield = nil
	if reps := newRaceReports(); len(reps) > 0 {
		rep := reps[0]
		if len(rep) > 2500 {
			rep = rep[:2500]
		}
		s.Fail("C20", "data-race", "the race detector reported %d data race(s) in the code under test; first:\n%s", len(reps), rep)
		return
	}
	if s.Failed() {
		return
	}
	close(opsCh)
	// linearizability of every point identity as a register that keeps the newest timestamp: an acknowledged write is
	// visible to every later read and successive reads never go back
	hist := map[string][]porcupine.Operation{}
	for o := range opsCh {
		hist[o.key] = append(hist[o.key], o.op)
	}
	for _, k := range sortedKeys(hist) {
		h := hist[k]
		if len(h) > 60 {
			h = h[:60]
		}
		res := porcupine.CheckOperationsTimeout(regModel, h, 10*time.Second)
		switch res {
		case porcupine.Illegal:
			var d []string
			for _, o := range h {
				d = append(d, fmt.Sprintf("c%d[%d..%d] %s", o.ClientId, o.Call, o.Return, regModel.DescribeOperation(o.Input, o.Output)))
			}
			s.Fail("C20", "not-linearizable", "reads and acknowledged writes of identity %s admit no serial order (stale or backward read): %s", k, strings.Join(d, "; "))
			return
		case porcupine.Unknown:
			s.Probe("porcupine timed out (inconclusive, not reported)")
		default:
			s.Probe("identities checked for linearizability")
		}
	}
	if unanswered > 0 {
		s.Probe("reads unanswered within their timeout (delays)")
	}
	s.Probe(fmt.Sprintf("overlap-sites=%d", min(len(b.sites), 9)))
	for site, n := range b.sites {
		s.Stats.Probes["released at "+site] += n
	}
	// the load has stopped, every handler was released and nothing is delayed: every kind of request is answered now
	// (handlers that wait for each other -- a lock cycle, an exhausted connection pool -- show up here at the latest)
	s.DelayPM = 0
	s.AdvanceIdle(65 * time.Second) // past the store's metric report period: the next handler calls report from inside the handler
	s.Call(func() {
		clock += 1000
		for i := 0; i < 3; i++ {
			if err := client.SendNodePoint(setup, "n2", data.Point{Type: "probe", Value: float64(i), Time: time.Unix(0, clock+int64(i)), Origin: "setup"}, true); err != nil {
				s.Fail("C20", "unanswered-after-load", "a minute after the load stopped node-point write %d of 3 in a row was not acknowledged: %v", i+1, err)
				return
			}
		}
		clock += 10
		if _, err := client.GetNodes(setup, "root", root, "", true); err != nil {
			s.Fail("C20", "unanswered-after-load", "after the load stopped a read of the root was not answered: %v", err)
			return
		}
		if err := client.SendNodePoint(setup, "n1", data.Point{Type: "probe", Value: 1, Time: time.Unix(0, clock), Origin: "setup"}, true); err != nil {
			s.Fail("C20", "unanswered-after-load", "after the load stopped a node-point write was not acknowledged: %v", err)
			return
		}
		if err := client.SendEdgePoint(setup, "n1", root, data.Point{Type: "probe", Value: 1, Time: time.Unix(0, clock+1), Origin: "setup"}, true); err != nil {
			s.Fail("C20", "unanswered-after-load", "after the load stopped an edge-point write was not acknowledged: %v", err)
			return
		}
		if err := client.AdminStoreVerify(setup); err != nil {
			s.Fail("C20", "unanswered-after-load", "after the load stopped admin.storeVerify was not answered: %v", err)
		}
	})
	if s.Failed() {
		return
	}
	// content is what some serial order of the acknowledged writes gives (last writer wins is order independent), hashes agree
	tr.CheckState(true)
	if s.Failed() {
		return
	}
	// stopping terminates the instance and the file opens again
	in.Stop()
	if s.Failed() {
		return
	}
	in.Start()
	if s.Failed() {
		return
	}
	tr.CheckState(true)
	if s.Failed() {
		return
	}
	// ... and the reopened store takes writes
	s.Call(func() {
		nc2, err := nats.Connect(in.URL(), nats.Name("after-reopen"))
		if err != nil {
			s.Fail("C20", "harness", "connect after reopen: %v", err)
			return
		}
		defer nc2.Close()
		if err := client.SendNodePoint(nc2, "n2", data.Point{Type: "probe", Value: 2, Time: time.Unix(0, clock+10), Origin: "setup"}, true); err != nil {
			s.Fail("C20", "reopen", "after Stop and a new start on the same store file a node-point write was answered: %v", err)
			return
		}
		if err := client.SendEdgePoint(nc2, "n2", root, data.Point{Type: "probe", Value: 2, Time: time.Unix(0, clock+11), Origin: "setup"}, true); err != nil {
			s.Fail("C20", "reopen", "after Stop and a new start on the same store file an edge-point write was answered: %v", err)
		}
	})
	s.Stats.NonTrivial = len(b.sites) > 0
}

func init() { register(&Engine{Prop: "C20", Run: runC20, MaxSteps: 20000}) }
