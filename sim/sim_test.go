package sim

import (
	"bytes"
	"fmt"
	"hash/fnv"
	"io"
	"log"
	mrand "math/rand"
	"os"
	"runtime"
	"sort"
	"strings"
	"sync"
	"sync/atomic"
	"testing"
	"testing/synctest"
	"time"

	"github.com/google/uuid"
	"github.com/nats-io/nats.go"
)

// Violation is what an oracle reports.
type Violation struct {
	Prop   string `json:"property"`
	Clause string `json:"clause"`
	Detail string `json:"detail"`
	Step   int    `json:"step"`
}

func (v *Violation) Class() string { return v.Prop + "/" + v.Clause }

// SimEvent is one thing the scheduler can choose to do next.
type SimEvent struct {
	Key string
	Do  func()
}

// RunStats is what one run measured.
type RunStats struct {
	Steps      int            `json:"steps"`
	Reorders   int            `json:"reorders"`   // choices that were not the FIFO one although >1 event was enabled
	Concurrent int            `json:"concurrent"` // steps at which >1 event was enabled
	Faults     map[string]int `json:"faults"`
	Probes     map[string]int `json:"probes"`
	SimTime    time.Duration  `json:"sim_ns"`
	SchedHash  uint64         `json:"sched_hash"`
	StateHash  uint64         `json:"state_hash"`
	LogHash    uint64         `json:"log_hash"`
	NonTrivial bool           `json:"nontrivial"` // set by engines whose non-triviality is not a matter of reordering
}

// Sim is one simulated run.
type Sim struct {
	T    *testing.T
	Prop string
	Seed uint64
	WL   *Tape
	SCH  *Tape
	W    *nats.World
	Dir  string

	mu     sync.Mutex
	Actors []*Actor
	Insts  []*Instance

	MaxSteps int
	Step     int
	EvLog    []string
	Viol     *Violation
	Stats    RunStats
	LogBuf   *bytes.Buffer
	start    time.Time
	DelayPM  int // per-mille chance per step of a pure delay although work is enabled
	DelayMax int // longest pure delay in milliseconds (default 3000)
	schedH   uint64
	stateH   uint64

	// FaultEvents, if set, returns the fault events enabled now.
	FaultEvents func() []SimEvent
	// AfterStep hooks run at the start of every step, once the previous one has fully played out.
	AfterStep []func()
	// OnQuiescent monitors run when bus and actors are idle.
	OnQuiescent []func()
	// Observers of bus events (called under the world lock).
	BusObservers []func(ev nats.BusEvent)
	noBubble     bool // the engine runs outside a synctest bubble (no simulated clock)
	NoTick       bool // steps take no simulated time (engines that probe exact instants)

	stepMirror atomic.Int64

	// SampleText describes the generated workload (for evidence and replay files).
	SampleText string

	cleanup []func()
}

var runCounter int

// NewSim builds the run context. Must be called inside the bubble.
func NewSim(t *testing.T, prop string, seed uint64, wl, sch *Tape) *Sim {
	runCounter++
	s := &Sim{T: t, Prop: prop, Seed: seed, WL: wl, SCH: sch, MaxSteps: 30000}
	s.Stats.Faults = map[string]int{}
	s.Stats.Probes = map[string]int{}
	s.W = nats.NewWorld()
	s.W.Observer = func(ev nats.BusEvent) {
		for _, f := range s.BusObservers {
			f(ev)
		}
	}
	base := os.Getenv("VERIF_SHM")
	if base == "" {
		base = "/dev/shm"
	}
	s.Dir = fmt.Sprintf("%s/vsim-%d-%d", base, os.Getpid(), runCounter)
	_ = os.RemoveAll(s.Dir)
	_ = os.MkdirAll(s.Dir, 0o755)
	s.LogBuf = &bytes.Buffer{}
	log.SetOutput(&lockedWriter{w: s.LogBuf})
	log.SetFlags(0)
	// randomness the code under test draws by itself is seeded from the run seed: uuids and the jitter of the
	// reconnect back-off (math/rand top-level functions)
	runtime.SimSeed = mix(seed, 79) | 1 // build overlay: select poll order and map iteration follow the run seed
	uuid.SetRand(&seedReader{state: mix(seed, 77)})
	mrand.Seed(int64(mix(seed, 78) >> 1))
	s.start = time.Now()
	// canary for the determinism self-test: the iteration order of a map too large for one group of slots depends on
	// the key of the map hash function, which the build overlay fixes (it is per-process random otherwise)
	canary := map[string]int{}
	for i := 0; i < 40; i++ {
		canary[fmt.Sprintf("k%d", i)] = i
	}
	var ch uint64 = 1
	for _, v := range canary {
		ch = mix(ch, uint64(v))
	}
	s.EvLog = append(s.EvLog, fmt.Sprintf("0000 t=0s map-order canary %016x", ch))
	s.schedH = 1469598103934665603
	s.stateH = 1469598103934665603
	return s
}

type lockedWriter struct {
	mu sync.Mutex
	w  *bytes.Buffer
}

func (l *lockedWriter) Write(p []byte) (int, error) {
	l.mu.Lock()
	defer l.mu.Unlock()
	if l.w.Len() > 1<<20 {
		l.w.Reset()
	}
	return l.w.Write(p)
}

func (l *lockedWriter) String() string {
	l.mu.Lock()
	defer l.mu.Unlock()
	return l.w.String()
}

// TakeLog returns and clears the captured log output of the code under test.
func (s *Sim) TakeLog() string {
	lw := log.Writer().(*lockedWriter)
	lw.mu.Lock()
	defer lw.mu.Unlock()
	out := lw.w.String()
	lw.w.Reset()
	return out
}

// Close removes the run directory and restores logging.
func (s *Sim) Close() {
	for i := len(s.cleanup) - 1; i >= 0; i-- {
		s.cleanup[i]()
	}
	if os.Getenv("VERIF_APPLOG") != "" { // debugging aid: what the code under test logged during this run
		fmt.Fprintf(os.Stderr, "---- application log ----\n%s---- end ----\n", s.LogBuf.String())
	}
	log.SetOutput(io.Discard)
	runtime.SimSeed = 0
	_ = os.RemoveAll(s.Dir)
	s.Stats.Steps = s.Step
	s.Stats.SimTime = time.Since(s.start)
	s.Stats.SchedHash = s.schedH
	s.Stats.StateHash = s.stateH
	s.Stats.LogHash = canonicalLogHash(s.EvLog)
}

func (s *Sim) Logf(format string, a ...any) {
	s.EvLog = append(s.EvLog, fmt.Sprintf("%04d t=%s ", s.Step, time.Since(s.start))+fmt.Sprintf(format, a...))
}

// bump advances the step counter; StepSeq is the copy other goroutines may read.
func (s *Sim) bump() {
	s.Step++
	s.stepMirror.Store(int64(s.Step))
}

// StepSeq returns the current step number (safe from any goroutine).
func (s *Sim) StepSeq() int { return int(s.stepMirror.Load()) }

func (s *Sim) Probe(name string) { s.Stats.Probes[name]++ }
func (s *Sim) Fault(name string) { s.Stats.Faults[name]++ }

// MixState folds an abstract state digest into the run's state hash.
func (s *Sim) MixState(x uint64) { s.stateH = mix(s.stateH, x) }

// Fail records the first violation of the run.
func (s *Sim) Fail(prop, clause, format string, a ...any) {
	if s.Viol != nil {
		return
	}
	if isKnownClass(prop + "/" + clause) {
		// an open, recorded finding (known_findings.json): counted, the run goes on
		s.Probe("known-finding hit: " + prop + "/" + clause)
		return
	}
	s.Viol = &Violation{Prop: prop, Clause: clause, Detail: fmt.Sprintf(format, a...), Step: s.Step}
	s.Logf("VIOLATION %s/%s: %s", prop, clause, s.Viol.Detail)
}

func (s *Sim) Failed() bool { return s.Viol != nil }

// ---------------------------------------------------------------------------
// actors: harness goroutines that issue operations through the public API

type ActorOp struct {
	Name string
	Fn   func()
}

type Actor struct {
	Name  string
	Nc    *nats.Conn
	s     *Sim
	ch    chan ActorOp
	busy  bool
	Queue []ActorOp
	Done  int
}

func (s *Sim) NewActor(name string, nc *nats.Conn) *Actor {
	a := &Actor{Name: name, Nc: nc, s: s, ch: make(chan ActorOp)}
	s.Actors = append(s.Actors, a)
	go func() {
		for op := range a.ch {
			op.Fn()
			s.mu.Lock()
			a.busy = false
			a.Done++
			s.mu.Unlock()
			s.W.Wake()
		}
	}()
	s.cleanup = append(s.cleanup, func() { close(a.ch) })
	return a
}

func (a *Actor) Add(name string, fn func()) { a.Queue = append(a.Queue, ActorOp{name, fn}) }

func (a *Actor) Busy() bool {
	a.s.mu.Lock()
	defer a.s.mu.Unlock()
	return a.busy
}

func (s *Sim) actorsIdle() bool {
	for _, a := range s.Actors {
		if a.Busy() {
			return false
		}
	}
	return true
}

func (s *Sim) workloadDone() bool {
	for _, a := range s.Actors {
		if a.Busy() || len(a.Queue) > 0 {
			return false
		}
	}
	return true
}

// ---------------------------------------------------------------------------
// the scheduler

func drain(ch <-chan struct{}) {
	select {
	case <-ch:
	default:
	}
}

// quiesce waits until every goroutine of the bubble is durably blocked.
func (s *Sim) quiesce() {
	synctest.Wait()
	drain(s.W.WakeCh())
}

// enabled lists everything that can happen next, most boring first.
func (s *Sim) enabled(withActors bool) []SimEvent {
	var evs []SimEvent
	for _, e := range s.W.Enabled() {
		e := e
		evs = append(evs, SimEvent{Key: e.Key(), Do: func() { s.W.Exec(e) }})
	}
	if withActors {
		for _, a := range s.Actors {
			a := a
			if !a.Busy() && len(a.Queue) > 0 {
				op := a.Queue[0]
				evs = append(evs, SimEvent{Key: "actor " + a.Name + " " + op.Name, Do: func() {
					a.Queue = a.Queue[1:]
					s.mu.Lock()
					a.busy = true
					s.mu.Unlock()
					a.ch <- op
				}})
			}
		}
		if s.FaultEvents != nil {
			evs = append(evs, s.FaultEvents()...)
		}
	}
	return evs
}

// sleepOrWake advances simulated time by at most d, or until bus work appears.
func (s *Sim) sleepOrWake(d time.Duration) {
	t := time.NewTimer(d)
	select {
	case <-s.W.WakeCh():
		t.Stop()
	case <-t.C:
	}
}

func (s *Sim) noteSched(key string) {
	h := fnv.New64a()
	h.Write([]byte(key))
	s.schedH = mix(s.schedH, h.Sum64())
}

// StepOnce executes one scheduler step. It returns false if nothing was
// enabled (the caller decides about time).
func (s *Sim) StepOnce(random bool) bool {
	s.quiesce()
	if !s.noBubble && !s.NoTick {
		// every step takes one simulated microsecond: tickers that the code under test starts in different steps are then
		// never due at exactly the same instant (in simulated time whole chains of work take no time at all, so a ticker
		// started by a client and the one of the manager that launched it would otherwise fire together for ever, and which
		// of the two goroutines runs first is not the simulator's choice)
		time.Sleep(time.Microsecond)
		s.quiesce()
	}
	for _, f := range s.AfterStep {
		f()
	}
	if s.Viol != nil {
		return false
	}
	evs := s.enabled(random)
	if random && s.workloadQuiescent() {
		for _, f := range s.OnQuiescent {
			f()
			if s.Viol != nil {
				return false
			}
		}
		// monitors drive the bus themselves (FIFO); recompute
		s.quiesce()
		evs = s.enabled(random)
	}
	if len(evs) == 0 {
		return false
	}
	idx := 0
	if random {
		v := s.SCH.Draw(1000)
		if s.DelayPM > 0 && v >= 1000-s.DelayPM {
			// pure delay although work is pending (slow network / stalled node)
			mx := s.DelayMax
			if mx <= 0 {
				mx = 3000
			}
			d := time.Duration(1+s.SCH.Draw(3000)%mx) * time.Millisecond
			s.bump()
			s.Fault("delay")
			s.Logf("delay %s", d)
			s.noteSched("delay")
			time.Sleep(d)
			return true
		}
		idx = v % len(evs)
		if len(evs) > 1 {
			s.Stats.Concurrent++
			if idx != 0 {
				s.Stats.Reorders++
			}
		}
	}
	e := evs[idx]
	s.bump()
	s.Logf("%s [%d/%d]", e.Key, idx, len(evs))
	s.noteSched(e.Key)
	e.Do()
	return true
}

// workloadQuiescent: nothing queued on the bus and no actor operation in flight.
func (s *Sim) workloadQuiescent() bool {
	return s.actorsIdle() && s.W.Idle()
}

// Run executes the random schedule until the workload is done and the system
// is idle, the step cap is hit or a violation is found.
func (s *Sim) Run() {
	idleSpins := 0
	for s.Step < s.MaxSteps && s.Viol == nil {
		if s.StepOnce(true) {
			idleSpins = 0
			continue
		}
		if s.Viol != nil {
			return
		}
		if s.workloadDone() && s.W.Idle() {
			return
		}
		// nothing enabled but operations are still in flight: let time pass
		idleSpins++
		if idleSpins > 400 {
			s.Fail(s.Prop, "stuck", "no progress: operations in flight but nothing enabled for %d time advances (months of simulated time); busy=%v",
				idleSpins, s.W.BusySubs())
			return
		}
		// geometric: a minute at first, up to a day per advance
		d := time.Minute << uint(min(idleSpins, 11))
		s.sleepOrWake(d)
	}
	if s.Step >= s.MaxSteps && s.Viol == nil {
		s.Probe("step-cap")
	}
}

// Settle runs the FIFO schedule (no tape draws) until nothing is enabled.
func (s *Sim) Settle() {
	for i := 0; i < 20000; i++ {
		if !s.StepOnce(false) {
			return
		}
	}
	s.Fail(s.Prop, "livelock", "bus did not settle within 20000 FIFO steps")
}

// Call runs fn on its own goroutine and drives the bus FIFO until it returns.
// Simulated time passes only when nothing is enabled.
func (s *Sim) Call(fn func()) {
	done := make(chan struct{})
	go func() {
		defer close(done)
		fn()
	}()
	for i := 0; i < 200000; i++ {
		s.quiesce()
		select {
		case <-done:
			return
		default:
		}
		evs := s.enabled(false)
		if len(evs) == 0 {
			t := time.NewTimer(time.Minute)
			select {
			case <-s.W.WakeCh():
				t.Stop()
			case <-done:
				t.Stop()
				return
			case <-t.C:
			}
			continue
		}
		s.bump()
		s.Logf("%s [call]", evs[0].Key)
		evs[0].Do()
	}
	s.Fail(s.Prop, "livelock", "harness call did not return within 200000 FIFO steps")
	<-done
}

// AdvanceIdle lets simulated time pass for d while serving whatever the system
// does on its own (FIFO).
func (s *Sim) AdvanceIdle(d time.Duration) {
	end := time.Now().Add(d)
	for time.Now().Before(end) && s.Viol == nil {
		if s.StepOnce(false) {
			continue
		}
		rem := time.Until(end)
		if rem <= 0 {
			return
		}
		s.sleepOrWake(rem)
	}
}

// ---------------------------------------------------------------------------

func sortedKeys[V any](m map[string]V) []string {
	ks := make([]string, 0, len(m))
	for k := range m {
		ks = append(ks, k)
	}
	sort.Strings(ks)
	return ks
}

func tail(lines []string, n int) string {
	if len(lines) > n {
		lines = lines[len(lines)-n:]
	}
	return strings.Join(lines, "\n")
}

// fenceOpen reports whether the generator may enter a region that an open
// known finding fences off (VERIF_FENCES lists the closed regions).
func fenceOpen(name string) bool {
	for _, f := range strings.Split(os.Getenv("VERIF_FENCES"), ",") {
		if strings.TrimSpace(f) == name {
			return false
		}
	}
	return true
}

type seedReader struct{ state uint64 }

func (r *seedReader) Read(p []byte) (int, error) {
	for i := range p {
		if i%8 == 0 {
			splitmix(&r.state)
		}
		p[i] = byte(r.state >> (8 * uint(i%8)))
	}
	return len(p), nil
}

// canonicalLogHash hashes the event log modulo one thing the simulator does not own: Go's randomised map iteration
// inside the code under test, which permutes the order in which a connection's subscriptions are cancelled at shutdown
// (store.Run, SyncClient.disconnect range over maps). A maximal run of consecutive UNSUB routings of one connection is
// therefore hashed as a set.
func canonicalLogHash(log []string) uint64 {
	h := fnv.New64a()
	strip := func(l string) string { // drop the step number, keep time and event
		if i := strings.Index(l, " "); i >= 0 {
			return l[i+1:]
		}
		return l
	}
	isUnsub := func(l string) (string, bool) {
		f := strings.Fields(strip(l))
		if len(f) >= 4 && f[1] == "route" && f[3] == "UNSUB" {
			return f[2], true
		}
		return "", false
	}
	for i := 0; i < len(log); {
		if c, ok := isUnsub(log[i]); ok {
			j := i
			var run []string
			for j < len(log) {
				c2, ok2 := isUnsub(log[j])
				if !ok2 || c2 != c {
					break
				}
				f := strings.Fields(strip(log[j]))
				run = append(run, strings.Join(f[:5], " "))
				j++
			}
			sort.Strings(run)
			for _, l := range run {
				h.Write([]byte(l))
				h.Write([]byte{'\n'})
			}
			i = j
			continue
		}
		h.Write([]byte(log[i]))
		h.Write([]byte{'\n'})
		i++
	}
	return h.Sum64()
}
