package sim

import (
	"encoding/binary"
	"fmt"
	"hash/crc32"
	"math"
	"sort"
	"strings"
	"time"

	"github.com/simpleiot/simpleiot/data"
)

// RefStore is the executable reference model of one instance's store: a map
// from point identity to the newest point, and an edge set.  It knows nothing
// about hashes, transactions or SQL.

type PKey struct{ Type, Key string }

func normKey(k string) string {
	if k == "" {
		return "0"
	}
	return k
}

type RefEdge struct {
	Up, Down, Type string
	Pts            map[PKey]data.Point
}

func (e *RefEdge) Tombstone() float64 {
	if p, ok := e.Pts[PKey{data.PointTypeTombstone, "0"}]; ok {
		return p.Value
	}
	return 0
}

// Live reports whether the edge counts as not deleted for upward rebroadcast
// of node points (even tombstone value).
func (e *RefEdge) Live() bool { return math.Mod(e.Tombstone(), 2) == 0 }

type RefStore struct {
	RootID  string
	NodePts map[string]map[PKey]data.Point
	Edges   map[[2]string]*RefEdge // key: up, down
	Order   [][2]string
}

func NewRefStore(root string) *RefStore {
	return &RefStore{RootID: root, NodePts: map[string]map[PKey]data.Point{}, Edges: map[[2]string]*RefEdge{}}
}

// Bootstrap fills the model from a dump of a freshly initialised store.
func (r *RefStore) Bootstrap(edges []data.NodeEdge) {
	for _, ne := range edges {
		k := [2]string{ne.Parent, ne.ID}
		if _, ok := r.Edges[k]; !ok {
			e := &RefEdge{Up: ne.Parent, Down: ne.ID, Type: ne.Type, Pts: map[PKey]data.Point{}}
			for _, p := range ne.EdgePoints {
				e.Pts[PKey{p.Type, normKey(p.Key)}] = p
			}
			r.Edges[k] = e
			r.Order = append(r.Order, k)
		}
		if _, ok := r.NodePts[ne.ID]; !ok {
			m := map[PKey]data.Point{}
			for _, p := range ne.Points {
				m[PKey{p.Type, normKey(p.Key)}] = p
			}
			r.NodePts[ne.ID] = m
		}
	}
}

func hasNaN(pts data.Points) bool {
	for _, p := range pts {
		if math.IsNaN(p.Value) {
			return true
		}
	}
	return false
}

func mergeInto(m map[PKey]data.Point, p data.Point, now time.Time) bool {
	if p.Time.IsZero() {
		p.Time = now
	}
	p.Key = normKey(p.Key)
	k := PKey{p.Type, p.Key}
	if old, ok := m[k]; ok && old.Time.After(p.Time) {
		return false
	}
	if y := p.Time.Year(); y < 1678 || y > 2261 {
		// the store keeps a time as 64-bit nanoseconds: a year outside 1678..2261 comes back as the wrapped count; the
		// comparison above is made with the time as it was submitted
		p.Time = time.Unix(0, p.Time.UnixNano())
	}
	m[k] = p
	return true
}

// NodePoints applies a node-point batch. It returns a refusal reason or "".
func (r *RefStore) NodePoints(id string, pts data.Points, now time.Time) string {
	if hasNaN(pts) {
		return "NaN value"
	}
	m := r.NodePts[id]
	if m == nil {
		m = map[PKey]data.Point{}
		r.NodePts[id] = m
	}
	for _, p := range pts {
		mergeInto(m, p, now)
	}
	return ""
}

// EdgePoints applies an edge-point batch. It returns a refusal reason or "".
func (r *RefStore) EdgePoints(id, parent string, pts data.Points, now time.Time) string {
	if id == parent {
		return "self edge"
	}
	if hasNaN(pts) {
		return "NaN value"
	}
	if id == r.RootID {
		// what the batch would write: per identity the newest point, on a tie the later one in the batch
		var surv *data.Point
		for i := range pts {
			p := pts[i]
			if p.Type != data.PointTypeTombstone || normKey(p.Key) != "0" {
				continue
			}
			if surv == nil || !p.Time.Before(surv.Time) {
				surv = &pts[i]
			}
		}
		if surv != nil && surv.Value > 0 {
			return "delete root"
		}
	}
	if parent == "" {
		parent = "root"
	}
	k := [2]string{parent, id}
	e := r.Edges[k]
	if e == nil {
		typ := ""
		for _, p := range pts {
			if p.Type == data.PointTypeNodeType {
				typ = p.Text // the newest one wins inside a batch; batches here carry at most one
			}
		}
		if typ == "" {
			return "new edge without node type"
		}
		if r.IsAncestorAny(id, parent) {
			return "cycle"
		}
		e = &RefEdge{Up: parent, Down: id, Type: typ, Pts: map[PKey]data.Point{}}
		r.Edges[k] = e
		r.Order = append(r.Order, k)
		if parent == "root" {
			r.RootID = id
		}
	}
	for _, p := range pts {
		if p.Type == data.PointTypeNodeType {
			continue
		}
		mergeInto(e.Pts, p, now)
	}
	return ""
}

// Parents of a node; liveOnly skips tombstoned edges.
func (r *RefStore) Parents(id string, liveOnly bool) []string {
	var out []string
	for _, k := range r.Order {
		e := r.Edges[k]
		if e.Down == id && (!liveOnly || e.Live()) {
			out = append(out, e.Up)
		}
	}
	return out
}

// Children edges of a node (deleted included).
func (r *RefStore) Children(id string) []*RefEdge {
	var out []*RefEdge
	for _, k := range r.Order {
		e := r.Edges[k]
		if e.Up == id {
			out = append(out, e)
		}
	}
	return out
}

// AncestorSet returns the node itself plus every ancestor (through live edges
// only, or through any edges), including the sentinel "root".
func (r *RefStore) AncestorSet(id string, liveOnly bool) map[string]bool {
	out := map[string]bool{}
	var walk func(string, int)
	walk = func(n string, d int) {
		if out[n] || d > 100 {
			return
		}
		out[n] = true
		for _, p := range r.Parents(n, liveOnly) {
			walk(p, d+1)
		}
	}
	walk(id, 0)
	return out
}

// IsAncestorAny reports whether anc is node or lies above node through any edges.
func (r *RefStore) IsAncestorAny(anc, node string) bool {
	return r.AncestorSet(node, false)[anc]
}

// Reachable lists the edges reachable from the root (deleted included) in the
// same discovery order Instance.Dump uses.
func (r *RefStore) Reachable() []*RefEdge {
	var out []*RefEdge
	seen := map[[2]string]bool{}
	var walk func(e *RefEdge)
	walk = func(e *RefEdge) {
		k := [2]string{e.Up, e.Down}
		if seen[k] {
			return
		}
		seen[k] = true
		out = append(out, e)
		for _, c := range r.Children(e.Down) {
			walk(c)
		}
	}
	for _, k := range r.Order {
		e := r.Edges[k]
		if e.Down == r.RootID {
			walk(e)
		}
	}
	for _, k := range r.Order { // parentless placements, in creation order (Instance.Dump appends them the same way)
		if e := r.Edges[k]; e.Up == "none" {
			walk(e)
		}
	}
	return out
}

// ---------------------------------------------------------------------------
// comparison of a dump with the model

func pointEq(a, b data.Point) bool {
	return a.Type == b.Type && normKey(a.Key) == normKey(b.Key) && a.Time.UnixNano() == b.Time.UnixNano() &&
		a.Value == b.Value && a.Text == b.Text && a.Tombstone == b.Tombstone && a.Origin == b.Origin
}

func fmtPoint(p data.Point) string {
	if len(p.Text) > 64 {
		p.Text = fmt.Sprintf("%s…(%d bytes)", p.Text[:24], len(p.Text))
	}
	return fmt.Sprintf("{%q/%q t=%d v=%v(%#x) txt=%q tomb=%d org=%q}", p.Type, p.Key, p.Time.UnixNano(), p.Value,
		math.Float64bits(p.Value), p.Text, p.Tombstone, p.Origin)
}

// comparePoints returns "" if got equals exactly the model's newest points.
func comparePoints(what string, got data.Points, want map[PKey]data.Point) string {
	return comparePointsOpt(what, got, want, false)
}

// comparePointsOpt can ignore the origin field (a point forwarded between instances carries the forwarder as origin).
func comparePointsOpt(what string, got data.Points, want map[PKey]data.Point, ignoreOrigin bool) string {
	seen := map[PKey]bool{}
	for _, g := range got {
		k := PKey{g.Type, normKey(g.Key)}
		if seen[k] {
			return fmt.Sprintf("%s: two points returned for identity (%q,%q)", what, k.Type, k.Key)
		}
		seen[k] = true
		if g.Key == "" {
			return fmt.Sprintf("%s: point (%q) returned with empty key", what, g.Type)
		}
		w, ok := want[k]
		if !ok {
			return fmt.Sprintf("%s: unexpected point %s", what, fmtPoint(g))
		}
		if ignoreOrigin {
			g.Origin, w.Origin = "", ""
		}
		if !pointEq(g, w) {
			return fmt.Sprintf("%s: identity (%q,%q) reads %s, newest delivered is %s", what, k.Type, k.Key, fmtPoint(g), fmtPoint(w))
		}
	}
	for k, w := range want {
		if !seen[k] {
			return fmt.Sprintf("%s: point %s missing", what, fmtPoint(w))
		}
	}
	return ""
}

// CompareDump checks that the dump equals the model on everything reachable.
func (r *RefStore) CompareDump(edges []data.NodeEdge) string {
	want := r.Reachable()
	got := map[[2]string]data.NodeEdge{}
	for _, e := range edges {
		got[[2]string{e.Parent, e.ID}] = e
	}
	if len(got) != len(want) {
		var a, b []string
		for _, e := range edges {
			a = append(a, e.Parent+"/"+e.ID)
		}
		for _, e := range want {
			b = append(b, e.Up+"/"+e.Down)
		}
		sort.Strings(a)
		sort.Strings(b)
		return fmt.Sprintf("edge set differs: store has [%s], model has [%s]", strings.Join(a, " "), strings.Join(b, " "))
	}
	for _, w := range want {
		g, ok := got[[2]string{w.Up, w.Down}]
		if !ok {
			return fmt.Sprintf("edge %s/%s missing in store", w.Up, w.Down)
		}
		if g.Type != w.Type {
			return fmt.Sprintf("edge %s/%s has type %q, model %q", w.Up, w.Down, g.Type, w.Type)
		}
		if d := comparePoints(fmt.Sprintf("node %s (under %s)", w.Down, w.Up), g.Points, r.NodePts[w.Down]); d != "" {
			return d
		}
		if d := comparePoints(fmt.Sprintf("edge %s/%s", w.Up, w.Down), g.EdgePoints, w.Pts); d != "" {
			return d
		}
	}
	return ""
}

// ---------------------------------------------------------------------------
// independent implementation of the documented hash definition

var crcTab = crc32.MakeTable(crc32.IEEE)

func refCRC(p data.Point) uint32 {
	if p.Type == data.PointTypeNodeType {
		return 0
	}
	var b []byte
	var d [8]byte
	binary.LittleEndian.PutUint64(d[:], uint64(p.Time.UnixNano()))
	b = append(b, d[:]...)
	b = append(b, p.Type...)
	b = append(b, p.Key...)
	b = append(b, p.Text...)
	binary.LittleEndian.PutUint64(d[:], math.Float64bits(p.Value))
	b = append(b, d[:]...)
	return crc32.Checksum(b, crcTab)
}

// CheckHashes verifies the local Merkle equation at every edge of a dump.
func CheckHashes(edges []data.NodeEdge) string {
	children := map[string][]data.NodeEdge{}
	for _, e := range edges {
		children[e.Parent] = append(children[e.Parent], e)
	}
	for _, e := range edges {
		var h uint32
		for _, p := range e.Points {
			h ^= refCRC(p)
		}
		for _, p := range e.EdgePoints {
			h ^= refCRC(p)
		}
		for _, c := range children[e.ID] {
			h ^= c.Hash
		}
		if h != e.Hash {
			return fmt.Sprintf("edge %s/%s reports hash %#x, content hashes to %#x (%d node points, %d edge points, %d child edges)",
				e.Parent, e.ID, e.Hash, h, len(e.Points), len(e.EdgePoints), len(children[e.ID]))
		}
	}
	return ""
}

// stateDigest is an order-independent digest of a dump (abstract state).
func stateDigest(edges []data.NodeEdge) uint64 {
	var x uint64
	for _, e := range edges {
		h := uint64(len(e.Points))*1000003 + uint64(len(e.EdgePoints))*10007
		for _, c := range e.Parent + "/" + e.ID + ":" + e.Type {
			h = h*131 + uint64(c)
		}
		for _, p := range e.Points {
			h ^= uint64(refCRC(p)) * 0x9e3779b97f4a7c15
		}
		for _, p := range e.EdgePoints {
			h ^= uint64(refCRC(p)) * 0xc2b2ae3d27d4eb4f
		}
		x ^= mix(h, 7)
	}
	return x
}
