package sim

import (
	"fmt"
	"math"
	"strings"
	"time"

	"github.com/simpleiot/simpleiot/data"
)

// generators shared by the workloads; every choice comes from the tape

var strTokens = []string{"a", "b", "ab", "0", "1", "", "é", "\x00", " ", "'", "%", "value", "description", "Z", "日本"}

// genStr draws a short string biased towards collisions of concatenations
// such as ("ab","") vs ("a","b").
func genStr(t *Tape) string {
	n := t.Draw(4) // 0..3 tokens
	var sb strings.Builder
	for i := 0; i < n; i++ {
		sb.WriteString(strTokens[t.Draw(len(strTokens))])
	}
	return sb.String()
}

func genKey(t *Tape) string {
	switch t.Draw(6) {
	case 0:
		return ""
	case 1:
		return "0"
	case 2:
		return "1"
	}
	return genStr(t)
}

var floatSpecials = []float64{0, 1, -1, 0.5, math.Inf(1), math.Inf(-1), math.MaxFloat64, -math.MaxFloat64,
	math.SmallestNonzeroFloat64, 1e-300, 123456789.125, 9007199254740993, 3.141592653589793}

// genFloat draws any float64 except NaN. Negative zero is drawn only when
// allowNegZero is set (open finding F-C03-negzero fences it off elsewhere).
func genFloat(t *Tape, allowNegZero bool) float64 {
	k := t.Draw(20)
	if k < len(floatSpecials) {
		t.Raw()
		return floatSpecials[k]
	}
	if k == 13 && allowNegZero {
		t.Raw()
		return math.Copysign(0, -1)
	}
	f := math.Float64frombits(t.Raw())
	if math.IsNaN(f) {
		return 42
	}
	if f == 0 && math.Signbit(f) && !allowNegZero {
		return 0
	}
	return f
}

// genTimeNs draws a timestamp over the whole int64 nanosecond range, biased to
// the edges and to "around now" (2000-01-01).
func genTimeNs(t *Tape) int64 {
	base := time.Date(2000, 1, 1, 0, 0, 0, 0, time.UTC).UnixNano()
	k := t.Draw(10)
	r := t.Raw()
	switch k {
	case 0:
		return math.MinInt64 + int64(r%1000)
	case 1:
		return math.MaxInt64 - int64(r%1000)
	case 2:
		return int64(r%2001) - 1000 // around the Unix epoch, incl. negative
	case 3:
		return int64(r) // anything
	case 4:
		return base + int64(r%2000000000) - 1000000000
	default:
		return base + int64(r%200) - 100 // dense, so that ordering by 1 ns matters
	}
}

var origins = []string{"", "x", "n1", "n2", "web", "é"}

func genPointBody(t *Tape, allowNegZero bool) data.Point {
	p := data.Point{Value: genFloat(t, allowNegZero)}
	if t.Chance(1, 2) {
		p.Text = genStr(t)
	} else {
		t.Raw()
		t.Raw()
		t.Raw()
		t.Raw()
	}
	switch t.Draw(8) {
	case 0:
		p.Tombstone = 1
	case 1:
		p.Tombstone = 2
	case 2:
		p.Tombstone = math.MaxInt32
	}
	p.Origin = origins[t.Draw(len(origins))]
	return p
}

func shortPts(pts data.Points) string {
	var sb strings.Builder
	for i, p := range pts {
		if i > 0 {
			sb.WriteString(" ")
		}
		fmt.Fprintf(&sb, "(%q,%q)@%d=%v", p.Type, p.Key, p.Time.UnixNano(), p.Value)
		if len(p.Text) > 48 {
			fmt.Fprintf(&sb, "/%q…(%d bytes)", p.Text[:16], len(p.Text))
		} else if p.Text != "" {
			fmt.Fprintf(&sb, "/%q", p.Text)
		}
	}
	return sb.String()
}
