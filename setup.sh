#!/bin/bash
# Offline setup: warm the Go build cache for the simulation engines.
set -e
export GOFLAGS=-mod=mod GOPROXY=off GOSUMDB=off GOTOOLCHAIN=local CGO_ENABLED=0
cd "$(dirname "$0")/sim"
cp /repo/go.sum go.sum
d=$(mktemp -d)
go1.26.8 test -c -tags verif -o "$d/sim.test" .
rm -rf "$d"
echo setup ok
